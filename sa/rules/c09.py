"""C09 — a merged store equals the concatenation of its inputs.

All rules are decided on *provenance*, not on statement shapes: scalar values are followed along the symbolic paths
of a function (guard clauses, temporaries, hoisted values, tuple / NamedTuple packing, private helpers of the module
are looked through - `sa.rules.c07.Sym`), list values are followed as "order-preserving image of a source list with
element function f" (`Prov`): through `list()/tuple()`, comprehensions and generator expressions without filter,
`zip/enumerate`, accumulator loops (`acc = []; for x in S: ...; acc.append(E)` with exactly one append per iteration)
and helper parameters.  `sorted/set/reversed`, slices, filters and in-place `.sort()/.reverse()/shuffle` break the
image.  A derivation the engine does not know is UNDECIDED, never a violation.

R1  order preservation.  (a) `_check_merge_arguments` returns, on every return path, the caller's list element for
    element, or the inclusive ascending expansion `range(first, last + 1)` of the numbered pattern.  (b) In `merge`
    the `stores` entry of the metadata document, the list handed to the merged-index builder and the relocation loop
    are images of that returned list (relocation: of all its elements, in any order).  (c) `_open_merged_store`
    derives file paths, datasets, dimensions, variables, every group list and the cumulative size table from
    `metadata['stores']` through order-preserving images only; the size table is the running sum of the lengths of
    exactly the dimensions stored next to it.
R2  refusals present (their position before any file-system effect is C10-R2): some raise path of `merge` is taken
    whenever an input's field-set names differ from the reference taken from the first input (a symmetric test, and
    the reference is bound only while it is still unset), and whenever identified and unidentified inputs are mixed
    (aggregate all/any test, or a per-input test that covers both mixed cases - decided by truth table).
R3  locate arithmetic, per path of `_load_trajectory` to a record read under "size table exists": the file position
    is bisect_left(table, index + 1) / bisect_right(table, index) of the table of the *same* file set whose groups
    are read, the position is bounded before use, and the record index is the requested index relative to the located
    file (index - table[file]; index - table[file] + len(dim[file]); index - table[file - 1] behind file > 0).
R4  the metadata records, per input, (the base name under which the input is moved into the output directory, the
    length of the store opened on that input); the relocation moves the input itself to <output>/<that name>.
R5  merged index offsets (C08-R3).
R6  the merged index is built under exactly the condition "every input is identified" (the reader of a merged store
    consults nothing else): every guard of the builder call is that condition or holds for every number of inputs.
"""

from __future__ import annotations

import ast
import copy

from ..astutil import (MUTATING_METHODS, ancestors, arg_or_kw, assigned_names, call_name, conjuncts, eval_pred,
                       guards_of, kwarg, norm, stmt_of, walk_no_nested)
from ..loader import parent
from ..resolve import resolve_class_call
from .c07 import Sym, SymUndecided, _base_id, _diff, _is_name, _nf, _strip, canon_fact, locate_paths

STORE = 'trajectories/store.py'
ELEM = '__elem__'
REORDERING = {'sorted': 'sorted() re-orders the elements', 'set': 'a set has no order and drops repeats',
              'frozenset': 'a set has no order and drops repeats', 'reversed': 'reversed() inverts the order',
              'random.sample': 'random.sample() re-orders', 'dict.fromkeys': 'drops repeats'}
TRANSPARENT = {'list', 'tuple', 'iter', 'copy.copy'}


# ------------------------------------------------------------------------------------------------ provenance

class Seq:
    """the list `[elem(e) for e in <src>]`, in the order of src and of the same length"""

    def __init__(self, src: str, elem: ast.expr):
        self.src, self.elem = src, elem

    def __repr__(self):
        return f'[{_strip(self.elem)} for {ELEM} in {self.src}]'


class Broken:
    def __init__(self, why: str, definite: bool):
        self.why, self.definite = why, definite


def _elem() -> ast.Name:
    return ast.Name(id=ELEM, ctx=ast.Load())


def subst(e: ast.expr, mapping: dict[str, ast.expr]) -> ast.expr:
    class T(ast.NodeTransformer):
        def visit_Name(self, n):
            if n.id in mapping:
                return copy.deepcopy(mapping[n.id])
            return n
    return T().visit(copy.deepcopy(e))


def bind_target(target: ast.expr, value: ast.expr, tag: str = '') -> dict[str, ast.expr]:
    """names bound by `for <target> in …` / a comprehension target -> expression over the iterated element"""
    if isinstance(target, ast.Name):
        return {target.id + tag: value}
    out = {}
    if isinstance(target, (ast.Tuple, ast.List)) and not any(isinstance(x, ast.Starred) for x in target.elts):
        for i, t in enumerate(target.elts):
            comp = value.elts[i] if isinstance(value, (ast.Tuple, ast.List)) and len(value.elts) == len(target.elts) \
                else ast.Subscript(value=copy.deepcopy(value), slice=ast.Constant(value=i), ctx=ast.Load())
            out.update(bind_target(t, comp, tag))
    return out


def canon(e: ast.expr) -> str:
    """text of a path-valued expression with the conversions that do not change which file it names removed"""
    class T(ast.NodeTransformer):
        def visit_Call(self, n):
            self.generic_visit(n)
            cn = call_name(n)
            if cn in ('Path', 'str', 'os.fspath', 'pathlib.Path', 'os.path.normpath') and len(n.args) == 1 and not n.keywords:
                return n.args[0]
            if cn == 'os.path.basename' and len(n.args) == 1:
                return ast.Attribute(value=n.args[0], attr='name', ctx=ast.Load())
            if cn == 'os.path.join' and len(n.args) >= 2:
                out = n.args[0]
                for a in n.args[1:]:
                    out = ast.BinOp(left=out, op=ast.Div(), right=a)
                return out
            return n
    return _strip(T().visit(copy.deepcopy(e)))


class Prov:
    def __init__(self, ctx, prog, m, fn, root, opaque=()):
        """root(expr) -> key of the source list that expr denotes, or None"""
        self.ctx, self.prog, self.m, self.fn, self.root, self.opaque = ctx, prog, m, fn, root, set(opaque)
        self.origin: dict[str, object] = {}
        self.lists: set[str] = set()           # local names that hold an image of a source

    def sym(self, fn, target=None) -> Sym:
        s = Sym(self.prog, fn)
        s.opaque = self.opaque
        s.run(target)
        self.origin.update(s.origin)
        return s

    # -- simplification of element expressions: field of a freshly built record, component of a tuple
    def simp(self, e: ast.expr) -> ast.expr:
        prov = self

        class T(ast.NodeTransformer):
            def visit_Attribute(self, n):
                self.generic_visit(n)
                v = n.value
                if isinstance(v, ast.Call):
                    f = prov._record_fields(v)
                    if f is not None and n.attr in f:
                        return f[n.attr]
                return n

            def visit_Subscript(self, n):
                self.generic_visit(n)
                if isinstance(n.slice, ast.Constant) and isinstance(n.slice.value, int):
                    i = n.slice.value
                    if isinstance(n.value, (ast.Tuple, ast.List)) and -len(n.value.elts) <= i < len(n.value.elts):
                        return n.value.elts[i]
                    if isinstance(n.value, ast.Call):
                        f = prov._record_fields(n.value)
                        if f is not None and 0 <= i < len(f):
                            return list(f.values())[i]
                return n
        return T().visit(copy.deepcopy(e))

    def _record_fields(self, c: ast.Call):
        name = call_name(c).split('.')[-1]
        cls = next((k for q, k in self.m.classes.items() if q.split('.')[-1] == name), None)
        if cls is None or any(isinstance(a, ast.Starred) for a in c.args):
            return None
        fields = list(cls.annotated_fields().keys())
        if not fields or len(c.args) > len(fields):
            return None
        out = dict(zip(fields, c.args))
        for k in c.keywords:
            if k.arg in fields:
                out[k.arg] = k.value
        return {f: out[f] for f in fields if f in out} if len(out) == len(fields) else None

    # -- sequences
    def seq(self, e: ast.expr, depth: int = 0):
        if depth > 12:
            return Broken('derivation too deep', False)
        key = self.root(e)
        if key is not None:
            return Seq(key, _elem())
        if isinstance(e, ast.Name):
            fn = self.origin.get(e.id, self.fn)
            return self.accumulator(fn, _base_id(e.id), depth)
        if isinstance(e, (ast.ListComp, ast.GeneratorExp)):
            if len(e.generators) != 1:
                return Broken('nested comprehension', False)
            g = e.generators[0]
            if g.ifs:
                return Broken('the comprehension filters elements out', True)
            s = self.seq(g.iter, depth + 1)
            if isinstance(s, Broken):
                return s
            return Seq(s.src, self.simp(subst(e.elt, bind_target(g.target, s.elem))))
        if isinstance(e, ast.Call):
            cn = call_name(e)
            if cn in REORDERING:
                return Broken(f'{cn}(): {REORDERING[cn]}', True)
            if cn in TRANSPARENT and len(e.args) == 1 and not e.keywords:
                return self.seq(e.args[0], depth + 1)
            if isinstance(e.func, ast.Attribute) and e.func.attr == 'copy' and not e.args:
                return self.seq(e.func.value, depth + 1)
            if cn == 'enumerate' and e.args:
                s = self.seq(e.args[0], depth + 1)
                return s if isinstance(s, Broken) else \
                    Seq(s.src, ast.Tuple(elts=[ast.Name(id='__index__', ctx=ast.Load()), s.elem], ctx=ast.Load()))
            if cn == 'zip' and e.args and not e.keywords:
                parts = [self.seq(a, depth + 1) for a in e.args]
                bad = next((p for p in parts if isinstance(p, Broken)), None)
                if bad is not None:
                    return bad
                if len({p.src for p in parts}) != 1:
                    return Broken('zip of lists of different sources', False)
                return Seq(parts[0].src, ast.Tuple(elts=[p.elem for p in parts], ctx=ast.Load()))
            if cn in ('map',) and len(e.args) == 2:
                s = self.seq(e.args[1], depth + 1)
                return s if isinstance(s, Broken) else \
                    Seq(s.src, ast.Call(func=e.args[0], args=[s.elem], keywords=[]))
            if cn in ('filter', 'itertools.islice', 'random.shuffle'):
                return Broken(f'{cn}() drops or re-orders elements', True)
        if isinstance(e, ast.Subscript) and isinstance(e.slice, ast.Slice):
            sl = e.slice
            if sl.lower is None and sl.upper is None and sl.step is None:
                return self.seq(e.value, depth + 1)
            return Broken(f'the slice [{norm(sl)}] drops or re-orders elements', True)
        return Broken(f'unrecognised derivation {_strip(e)[:70]}', False)

    def accumulator(self, fn, base: str, depth: int):
        """`base = []` … `for x in S: …; base.append(E)` (one append on every completed iteration)"""
        inits, appends, other = [], [], None
        for x in walk_no_nested(fn.node):
            if isinstance(x, (ast.Assign, ast.AnnAssign)) and getattr(x, 'value', None) is not None:
                tg = x.targets if isinstance(x, ast.Assign) else [x.target]
                if any(_is_name(t, base) for t in tg):
                    inits.append(x)
                elif any(base in assigned_names(t) for t in tg):
                    other = 'bound by unpacking'
                elif any(isinstance(t, ast.Subscript) and _is_name(t.value, base) for t in tg):
                    other = 'element stores'
            elif isinstance(x, ast.AugAssign) and _is_name(x.target, base):
                if isinstance(x.op, ast.Add) and isinstance(x.value, ast.List) and len(x.value.elts) == 1:
                    appends.append((x, x.value.elts[0]))
                else:
                    other = 'augmented assignment'
            elif isinstance(x, ast.Call) and isinstance(x.func, ast.Attribute) and _is_name(x.func.value, base):
                a = x.func.attr
                if a == 'append' and len(x.args) == 1:
                    appends.append((stmt_of(x), x.args[0]))
                elif a in ('sort', 'reverse'):
                    return Broken(f'`{base}.{a}()` re-orders the list in place', True)
                elif a in MUTATING_METHODS:
                    other = f'.{a}()'
            elif isinstance(x, ast.Call) and call_name(x) in ('random.shuffle', 'shuffle') and x.args \
                    and _is_name(x.args[0], base):
                return Broken(f'`{call_name(x)}({base})` re-orders the list in place', True)
            elif isinstance(x, (ast.For, ast.AsyncFor)) and base in assigned_names(x.target):
                other = 'loop target'
            elif isinstance(x, ast.Delete) and any(base in {n.id for n in ast.walk(t) if isinstance(n, ast.Name)}
                                                   for t in x.targets):
                other = 'del'
        if other is not None:
            return Broken(f'`{base}` is also changed by {other}', False)
        if base in fn.params and not inits and not appends:
            return Broken(f'parameter `{base}` of {fn.qualname}', False)
        empty = len(inits) == 1 and ((isinstance(inits[0].value, ast.List) and not inits[0].value.elts)
                                     or (isinstance(inits[0].value, ast.Call) and call_name(inits[0].value) == 'list'
                                         and not inits[0].value.args))
        if not empty or len(appends) != 1:
            return Broken(f'`{base}` is not a list filled by one append per iteration', False)
        st, arg = appends[0]
        loop = parent(st)
        if not isinstance(loop, (ast.For, ast.AsyncFor)) or not any(st is b for b in loop.body):
            return Broken(f'the append to `{base}` is conditional', False)
        if any(isinstance(a, (ast.For, ast.AsyncFor, ast.While)) for a in ancestors(loop)) or loop.orelse:
            return Broken(f'the loop filling `{base}` is nested', False)
        if any(isinstance(x, (ast.Break, ast.Continue)) for x in walk_no_nested(loop)):
            return Broken(f'the loop filling `{base}` can skip iterations (break / continue)', False)
        try:
            hits = self.sym(fn, lambda n: n is st).hits
        except SymUndecided as ex:
            return Broken(str(ex), False)
        vals = {norm(h.ev(arg)): h.ev(arg) for h in hits}
        if len(vals) != 1:
            return Broken(f'the element appended to `{base}` differs between paths', False)
        s = self.seq(hits[0].ev(loop.iter), depth + 1)
        if isinstance(s, Broken):
            return s
        self.lists.add(base)
        return Seq(s.src, self.simp(subst(next(iter(vals.values())), bind_target(loop.target, s.elem, f'@{loop.lineno}'))))


def _enclosing_loop(n: ast.AST):
    return next((a for a in ancestors(n) if isinstance(a, (ast.For, ast.AsyncFor))), None)


def _opened_path(e: ast.expr) -> ast.expr | None:
    """path of the store that e opens (`TrajectoryStore.open(base_file=P)`, `TrajectoryStore(P, …)`)"""
    if isinstance(e, ast.Call) and (call_name(e).endswith(('.open', '.append')) or call_name(e).endswith('TrajectoryStore')):
        return arg_or_kw(e, 0, 'base_file')
    return None


def _about_groups(e: ast.AST) -> bool:
    return any(isinstance(x, ast.Attribute) and x.attr == 'index_group' for x in ast.walk(e))


def _decide(ctx, rule, fn, what, s, want_elem=None, line=0):
    """obligation: `what` is an order-preserving image of the source (optionally with a given element)"""
    if isinstance(s, Broken):
        if not s.definite:
            ctx.undecided(rule, fn, what[:80], s.why)
        ctx.ob(rule, fn, what, False, s.why, line=line)
        return False
    ok = want_elem is None or canon(s.elem) == want_elem
    ctx.ob(rule, fn, what, ok, f'order-preserving image of {s.src}: {s!r}'[:200] if ok else
           f'the elements are `{canon(s.elem)}`, expected `{want_elem}`', line=line)
    return ok


# ------------------------------------------------------------------------------------------------ the rules

def run(ctx):
    prog = ctx.prog
    m = prog.module(STORE)
    rule_check_arguments(ctx, prog, m)
    mixed_refused = rule_refusals(ctx, prog, m)
    rule_merge(ctx, prog, m, mixed_refused)
    rule_open_merged(ctx, prog, m)
    # R3 locate arithmetic (symbolic paths; see rule_locate_arith)
    rule_locate_arith(ctx, prog, m)
    # R5 flight-identifier lookup across parts: the merged index offsets (shared with C08-R3)
    from .c08 import rule_offsets
    rule_offsets(ctx, m, rule='C09-R5')
    ctx.assumptions += ['netCDF4 resolves a negative record index against the (static) dimension length of a read-only file']


def rule_check_arguments(ctx, prog, m):
    """R1a: what _check_merge_arguments returns"""
    chk = m.func('TrajectoryStore._check_merge_arguments')
    cands = [p for p in chk.params if 'stores' in p and 'pattern' not in p and 'range' not in p]
    lst = cands[0] if cands else (chk.params[1] if len(chk.params) > 1 else None)
    prov = Prov(ctx, prog, m, chk, lambda e: 'the input list' if _is_name(e, lst) else None)
    try:
        sym = prov.sym(chk)
    except SymUndecided as ex:
        ctx.undecided('C09-R1', chk, 'returns', str(ex))
    rets = [r for r in sym.returns if r[2] is not None]
    ctx.floor('C09-R1', len(rets), 1, 'returns of _check_merge_arguments')
    for st, v, stmt in rets:
        rng = None
        if isinstance(v, (ast.ListComp, ast.GeneratorExp)) and len(v.generators) == 1 and not v.generators[0].ifs \
                and isinstance(v.generators[0].iter, ast.Call) and call_name(v.generators[0].iter) == 'range':
            rng = v.generators[0].iter
        if rng is not None:
            ok = None
            if len(rng.args) == 2 and isinstance(rng.args[0], ast.Subscript) and isinstance(rng.args[0].slice, ast.Constant):
                P = rng.args[0].value
                d0 = rng.args[0].slice.value
                hi = ast.Subscript(value=P, slice=ast.Constant(value=1), ctx=ast.Load())
                d = _diff(rng.args[1], hi)
                if isinstance(P, ast.Name) and P.id in chk.params and d is not None:
                    ok = d0 == 0 and d == 1
            elif len(rng.args) == 3:
                d = _nf(rng.args[2])
                if d is not None and d.is_const() and d.const() < 0:
                    ok = False
            if ok is None:
                ctx.undecided('C09-R1', chk, _strip(rng), 'pattern expansion range not recognised')
            ctx.ob('C09-R1', chk, 'numbered pattern expands to the inclusive ascending range', ok,
                   _strip(v)[:120] if ok else 'pattern expansion is not range(first, last + 1) in ascending order',
                   line=stmt.lineno)
            continue
        s = prov.seq(v)
        if isinstance(s, Broken) and not s.definite:
            ctx.undecided('C09-R1', chk, _strip(v)[:80], s.why)
        ok = isinstance(s, Seq) and canon(s.elem) == ELEM
        ctx.ob('C09-R1', chk, f'return {_strip(v)[:80]}', ok,
               'returns the input list' if ok else 'returns something other than the input list in the order given: '
               + (s.why if isinstance(s, Broken) else f'elements {canon(s.elem)}'), line=stmt.lineno, nontrivial=not ok)
    for x in walk_no_nested(chk.node):
        if isinstance(x, ast.Call) and isinstance(x.func, ast.Attribute) and x.func.attr in ('sort', 'reverse') \
                and _is_name(x.func.value, lst):
            ctx.ob('C09-R1', chk, norm(x), False, 'the input list is reordered in place', line=x.lineno)


def _merge_prov(ctx, prog, m):
    mg = m.func('TrajectoryStore.merge')
    chk = m.func('TrajectoryStore._check_merge_arguments')

    def root(e):
        return 'the checked input list' if isinstance(e, ast.Call) and call_name(e).split('.')[-1] == chk.name else None
    return mg, Prov(ctx, prog, m, mg, root, opaque={chk.name})


def rule_merge(ctx, prog, m, mixed_refused=False):
    """R1b, R4, R6: the metadata document, the relocation and the index builder in merge"""
    mg, prov = _merge_prov(ctx, prog, m)
    out_param = mg.params[0]

    # --- the `stores` entry of the metadata document ------------------------------------------------------
    def stores_entry(n):
        if isinstance(n, ast.Call) and call_name(n) == 'dict' and kwarg(n, 'stores') is not None:
            return kwarg(n, 'stores')
        if isinstance(n, ast.Dict):
            for k, v in zip(n.keys, n.values):
                if isinstance(k, ast.Constant) and k.value == 'stores':
                    return v
        if isinstance(n, ast.Assign) and any(isinstance(t, ast.Subscript) and isinstance(t.slice, ast.Constant)
                                             and t.slice.value == 'stores' for t in n.targets):
            return n.value
        return None

    try:
        docs = prov.sym(mg, lambda n: stores_entry(n) is not None).hits
    except SymUndecided as ex:
        ctx.undecided('C09-R1', mg, 'metadata document', str(ex))
    ctx.floor('C09-R4', len(docs), 1, 'metadata documents with a `stores` entry written by merge')
    recorded = None
    seen_docs = set()
    for h in docs:
        val = h.ev(stores_entry(h.node))
        if (id(h.node), norm(val)) in seen_docs:
            continue
        seen_docs.add((id(h.node), norm(val)))
        s = prov.seq(val)
        if not _decide(ctx, 'C09-R1', mg, 'metadata `stores` lists the inputs in the order given', s, line=h.node.lineno):
            continue
        el = s.elem
        ok = isinstance(el, (ast.Tuple, ast.List)) and len(el.elts) == 2
        name_ok = len_ok = False
        if ok:
            recorded = el.elts[0]
            name_ok = canon(el.elts[0]) == f'{ELEM}.name'
            ln = el.elts[1]
            opened = _opened_path(ln.args[0]) if isinstance(ln, ast.Call) and call_name(ln) == 'len' and len(ln.args) == 1 else None
            len_ok = opened is not None and canon(opened) == ELEM
        ctx.ob('C09-R4', mg, 'metadata entry per input = (file name, length of that input)', ok and name_ok and len_ok,
               f'records {_strip(el)[:120]} per input in loop order' if ok and name_ok and len_ok else
               f'metadata entry is not (name of the input, length of the input): `{_strip(el)[:120]}`', line=h.node.lineno)

    # --- relocation ------------------------------------------------------------------------------------------
    def is_move(n):
        return isinstance(n, ast.Call) and (call_name(n) in ('os.rename', 'os.replace', 'shutil.move', 'os.renames')
                                            or (isinstance(n.func, ast.Attribute) and n.func.attr in ('rename', 'replace')
                                                and len(n.args) == 1 and not call_name(n).startswith(('os.', 'str.'))))

    try:
        moves = prov.sym(mg, is_move).hits
    except SymUndecided as ex:
        ctx.undecided('C09-R1', mg, 'relocation', str(ex))
    ctx.floor('C09-R1', len(moves), 1, 'relocation calls (rename / replace / move) in merge')
    seen = set()
    for h in moves:
        c = h.node
        if id(c) in seen:
            continue
        seen.add(id(c))
        loop = _enclosing_loop(c)
        if loop is None:
            ctx.undecided('C09-R1', mg, norm(c)[:80], 'relocation outside a loop over the inputs')
        it = h.ev(loop.iter)
        while isinstance(it, ast.Call) and call_name(it) in ('sorted', 'reversed', 'set', 'frozenset', 'list', 'tuple') and it.args:
            it = it.args[0]      # the order in which the files are moved does not matter
        s = prov.seq(it)
        if isinstance(s, Broken):
            if not s.definite:
                ctx.undecided('C09-R1', mg, _strip(it)[:80], s.why)
            ctx.ob('C09-R1', mg, 'relocation visits every input', False,
                   f'the relocation loop visits the inputs in a different subset: {s.why}', line=loop.lineno)
            continue
        ctx.ob('C09-R1', mg, 'relocation visits every input', True, f'loop over {s!r}'[:160], line=loop.lineno)
        b = bind_target(loop.target, s.elem, f'@{loop.lineno}')
        if call_name(c) in ('os.rename', 'os.replace', 'shutil.move', 'os.renames'):
            a_src, a_dst = arg_or_kw(c, 0, 'src'), arg_or_kw(c, 1, 'dst')
        else:
            a_src, a_dst = c.func.value, c.args[0]
        src = canon(prov.simp(subst(h.ev(a_src), b)))
        dst = prov.simp(subst(h.ev(a_dst), b))
        want = f'{out_param} / {canon(recorded)}' if recorded is not None else None
        ok = src == ELEM and want is not None and canon(dst) == want
        ctx.ob('C09-R4', mg, 'input moved to <output>/<the name recorded for it>', ok,
               f'moves {src} to {canon(dst)}' if ok else
               f'the relocation moves `{src}` to `{canon(dst)}`; the metadata records `{canon(recorded) if recorded is not None else "?"}` '
               f'inside `{out_param}`: the relocation target differs from the name recorded in the metadata', line=c.lineno)

    # --- the merged-index builder: which list, under which condition ----------------------------------------
    builder = m.func('TrajectoryStore._create_merged_store_index')

    def is_build(n):
        return isinstance(n, ast.Call) and call_name(n).split('.')[-1] == builder.name

    try:
        builds = prov.sym(mg, is_build).hits
    except SymUndecided as ex:
        ctx.undecided('C09-R6', mg, 'index builder', str(ex))
    ctx.floor('C09-R6', len({id(h.node) for h in builds}), 1, 'merged-index creation sites in merge')
    done = set()
    for h in builds:
        c = h.node
        if id(c) in done:
            continue
        done.add(id(c))
        a = arg_or_kw(c, 1, builder.params[1])
        if a is None:
            ctx.undecided('C09-R1', mg, norm(c)[:80], 'cannot tell the list argument of the index builder')
        _decide(ctx, 'C09-R1', mg, 'index builder receives the inputs in the order given', prov.seq(h.ev(a)),
                want_elem=ELEM, line=c.lineno)
        # R6
        problems, unknown, conds = [], [], []
        for t, pol, _ in guards_of(stmt_of(c)):
            for atom, p in conjuncts(h.ev(t), pol):
                conds.append(('' if p else 'not ') + _strip(atom)[:60])
                v = _every_input_identified(prov, atom, p)
                if v is True:
                    continue
                nt = _none_test(canon_fact(atom, p)[2])
                if nt is not None and _is_group_element(prov, nt[0]) and nt[1] != canon_fact(atom, p)[1] and mixed_refused:
                    continue        # one input is identified, and mixed inputs were refused before: all of them are
                n_ok = _holds_for_every_count(prov, atom, p)
                if n_ok is True:
                    continue
                if n_ok is False:
                    problems.append(f'`{"" if p else "not "}{_strip(atom)}` does not hold for every number of inputs')
                elif v is False:
                    problems.append(f'`{"" if p else "not "}{_strip(atom)}` is not "every input is identified"')
                else:
                    unknown.append(_strip(atom))
        if not problems and unknown:
            ctx.undecided('C09-R6', mg, unknown[0][:80], 'guard of the index builder not recognised')
        if not problems and not conds:
            ctx.undecided('C09-R6', mg, norm(c)[:60], 'the index builder runs unconditionally')
        ok = not problems
        ctx.ob('C09-R6', mg, 'merged index built exactly when every input is identified', ok,
               f'built under {conds}: for every identified merge (the reader looks for the merged index only)' if ok else
               (f'{problems[0]}: the merged index is not built for every merge of identified stores: the reader of a merged '
                'store only consults the merged index file, so such a store opens as not indexable and look-ups by flight '
                'identifier fail although every input had identifiers'), line=c.lineno)

    # --- nothing re-orders the lists in place ------------------------------------------------------------------
    for x in walk_no_nested(mg.node):
        if isinstance(x, ast.Call) and isinstance(x.func, ast.Attribute) and x.func.attr in ('sort', 'reverse') \
                and isinstance(x.func.value, ast.Name):
            nm = x.func.value.id
            holds = nm in prov.lists or any(isinstance(s, ast.Assign) and any(_is_name(t, nm) for t in s.targets)
                                            and prov.root(s.value) is not None for s in walk_no_nested(mg.node))
            if holds:
                ctx.ob('C09-R1', mg, norm(x), False, 'list reordered in place', line=x.lineno)


def _none_test(e: ast.expr):
    """(X, is_none) when e is `X is None` / `X is not None` / `X == None`, else None"""
    k, pol, ce = canon_fact(e, True)
    if isinstance(ce, ast.Compare) and isinstance(ce.ops[0], (ast.Is, ast.Eq)) \
            and isinstance(ce.comparators[0], ast.Constant) and ce.comparators[0].value is None:
        return ce.left, pol
    return None


def _identified_aggregate(prov, e: ast.expr):
    """('all' | 'any', polarity of "is identified") when e is all(/any(<elem None-test> for elem in <index groups of the
    inputs>), else None"""
    if not (isinstance(e, ast.Call) and call_name(e) in ('all', 'any') and len(e.args) == 1
            and isinstance(e.args[0], (ast.GeneratorExp, ast.ListComp))):
        return None
    s = prov.seq(e.args[0])
    if isinstance(s, Broken):
        return None
    nt = _none_test(s.elem)
    if nt is None or not _about_groups(nt[0]):
        return None
    return call_name(e), (not nt[1])


def _every_input_identified(prov, atom: ast.expr, pol: bool):
    """True: the fact `atom is pol` says exactly "every input has an identifier index"; False: it is about the index
    groups but says something else; None: not about them"""
    k, p, ce = canon_fact(atom, pol)
    ag = _identified_aggregate(prov, ce)
    if ag is not None:
        fn, identified = ag
        # all(g is not None) true  |  any(g is None) false
        return bool((fn == 'all' and identified and p) or (fn == 'any' and not identified and not p))
    if _about_groups(ce):
        return False
    return None


def _holds_for_every_count(prov, atom: ast.expr, pol: bool):
    """a guard that only depends on the number of inputs: does it hold for 1, 2, 3, … inputs?"""
    lens = []

    class T(ast.NodeTransformer):
        def visit_Call(self, n):
            if call_name(n) == 'len' and len(n.args) == 1 and isinstance(prov.seq(n.args[0]), Seq):
                lens.append(n)
                return ast.Name(id='n', ctx=ast.Load())
            return self.generic_visit(n)
    e = T().visit(copy.deepcopy(atom))
    if not lens:
        if isinstance(prov.seq(atom), Seq):     # truthiness of the list itself: at least one input
            return pol
        return None
    try:
        return all(bool(eval_pred(e, {'n': n})) == pol for n in range(1, 7))
    except (ValueError, TypeError):
        return None


def rule_open_merged(ctx, prog, m):
    """R1c: everything _open_merged_store hands to NcFiles follows metadata['stores']"""
    om = m.func('TrajectoryStore._open_merged_store')

    def root(e):
        if isinstance(e, ast.Subscript) and isinstance(e.slice, ast.Constant) and e.slice.value == 'stores':
            return "metadata['stores']"
        if isinstance(e, ast.Call) and isinstance(e.func, ast.Attribute) and e.func.attr == 'get' and e.args \
                and isinstance(e.args[0], ast.Constant) and e.args[0].value == 'stores':
            return "metadata['stores']"
        return None
    prov = Prov(ctx, prog, m, om, root)

    def is_files(n):
        if not isinstance(n, ast.Call):
            return False
        k = resolve_class_call(prog, om, n)
        return k is not None and k.name.split('.')[-1] == 'NcFiles'

    try:
        hits = prov.sym(om, is_files).hits
    except SymUndecided as ex:
        ctx.undecided('C09-R1', om, 'NcFiles(...)', str(ex))
    sites = {id(h.node) for h in hits}
    if len(sites) != 1:
        ctx.undecided('C09-R1', om, 'NcFiles(...)', f'{len(sites)} construction sites')
    h = hits[0]
    c = h.node
    images = {}
    for kw in ('path', 'dataset', 'traj_dim', 'traj_var'):
        v = kwarg(c, kw)
        if v is None:
            ctx.undecided('C09-R1', om, kw, 'not passed by keyword')
        s = prov.seq(h.ev(v))
        images[kw] = s
        _decide(ctx, 'C09-R1', om, f'{kw} follows metadata order', s, line=v.lineno)
    # groups: every list of groups follows the datasets
    gv = kwarg(c, 'groups')
    if gv is None:
        ctx.undecided('C09-R1', om, 'groups', 'not passed by keyword')
    g = h.ev(gv)
    lists = []
    if isinstance(g, ast.DictComp):
        lists = [g.value]
    elif isinstance(g, ast.Dict):
        lists = list(g.values)
    elif isinstance(g, ast.Name):
        base, fn = _base_id(g.id), prov.origin.get(g.id, om)
        for x in walk_no_nested(fn.node):
            if isinstance(x, ast.Assign) and any(isinstance(t, ast.Subscript) and _is_name(t.value, base) for t in x.targets):
                try:
                    for hh in prov.sym(fn, lambda n, x=x: n is x).hits[:1]:
                        lists.append(hh.ev(x.value))
                except SymUndecided as ex:
                    ctx.undecided('C09-R1', om, 'groups', str(ex))
            elif isinstance(x, (ast.Assign, ast.AnnAssign)) and getattr(x, 'value', None) is not None \
                    and any(_is_name(t, base) for t in (x.targets if isinstance(x, ast.Assign) else [x.target])) \
                    and isinstance(x.value, ast.DictComp):
                lists.append(x.value.value)
    if not lists:
        ctx.undecided('C09-R1', om, f'groups = {_strip(g)[:60]}', 'cannot tell how the group lists are built')
    for lv in lists:
        _decide(ctx, 'C09-R1', om, f'groups[...] = {_strip(lv)[:50]} follows metadata order', prov.seq(lv),
                line=getattr(lv, 'lineno', c.lineno))
    # size table: running sum of the lengths of exactly the stored dimensions
    sz = kwarg(c, 'size_index')
    if sz is None:
        ctx.undecided('C09-R1', om, 'size_index', 'not passed by keyword')
    e = h.ev(sz)
    while isinstance(e, ast.Call) and call_name(e) in ('list', 'tuple') and len(e.args) == 1:
        e = e.args[0]
    running = isinstance(e, ast.Call) and call_name(e).split('.')[-1] in ('accumulate', 'cumsum') and len(e.args) == 1 \
        and not any(k.arg in ('func', 'initial') for k in e.keywords)
    if not running:
        s = prov.seq(e)
        if isinstance(s, Broken) and not s.definite:
            ctx.undecided('C09-R1', om, _strip(e)[:80], 'size table is not a recognised running sum')
        ctx.ob('C09-R1', om, 'size table = running sum of per-file lengths', False,
               'size table is not the cumulative sum of the file lengths', line=sz.lineno)
        return
    s = prov.seq(e.args[0])
    if _decide(ctx, 'C09-R1', om, 'size_index follows metadata order', s, line=sz.lineno):
        dim = images.get('traj_dim')
        ok = isinstance(dim, Seq) and isinstance(s.elem, ast.Call) and call_name(s.elem) == 'len' \
            and len(s.elem.args) == 1 and norm(s.elem.args[0]) == norm(dim.elem)
        ctx.ob('C09-R1', om, 'size table = running sum of per-file lengths', ok,
               f'accumulate of {_strip(s.elem)[:80]} per file' if ok else
               f'the size table sums `{_strip(s.elem)[:80]}`, not the length of the trajectory dimension stored for the '
               f'same file: size table is not the cumulative sum of the file lengths', line=sz.lineno)


def rule_refusals(ctx, prog, m):
    """R2: differing field sets and mixed identifier use are refused"""
    mg, prov = _merge_prov(ctx, prog, m)
    try:
        sym = prov.sym(mg)
    except SymUndecided as ex:
        ctx.undecided('C09-R2', mg, 'refusals', str(ex))

    def facts_of(r):
        """facts of a raise path, with the loop targets of the enclosing loop replaced by the element they stand for"""
        st, exc, stmt, rs = r
        loop = _enclosing_loop(stmt)
        b = {}
        if loop is not None:
            s = prov.seq(rs.ev(loop.iter, st.fork()))
            if isinstance(s, Seq):
                b = bind_target(loop.target, s.elem, f'@{loop.lineno}')
        return [(prov.simp(subst(e, b)), p) for k, p, e in st.facts]

    raises = list(sym.raises)

    # ---- field sets ------------------------------------------------------------------------------------------
    def mentions_nc(e):
        return any(isinstance(x, ast.Attribute) and x.attr in ('_nc', 'fieldsets') for x in ast.walk(e))

    verdict, where, ref_name, self_cmp = None, None, None, None
    for r in raises:
        for e, p in facts_of(r):
            if not mentions_nc(e):
                continue
            k, pol, ce = canon_fact(e, p)
            where = where or r[2]
            if isinstance(ce, ast.Compare) and isinstance(ce.ops[0], ast.Eq) and not pol:
                sides = [ce.left, ce.comparators[0]]
                refs = [x for x in sides if isinstance(x, ast.Name) and '@' in x.id]
                curs = [x for x in sides if mentions_nc(x)]
                if len(refs) == 1 and len(curs) == 1:
                    verdict, ref_name, where = True, refs[0], r[2]
                elif norm(sides[0]) == norm(sides[1]):
                    self_cmp = r[2]   # (the first-input path compares the just-bound reference with itself)
                continue
            sym_diff = (isinstance(ce, ast.BinOp) and isinstance(ce.op, ast.BitXor)) or \
                (isinstance(ce, ast.Call) and isinstance(ce.func, ast.Attribute) and ce.func.attr == 'symmetric_difference')
            if sym_diff and pol:
                refs = [x for x in ast.walk(ce) if isinstance(x, ast.Name) and '@' in x.id]
                if refs:
                    verdict, ref_name, where = True, refs[0], r[2]
                continue
            one_way = (isinstance(ce, ast.BinOp) and isinstance(ce.op, ast.Sub)) or \
                (isinstance(ce, ast.Compare) and isinstance(ce.ops[0], (ast.Lt, ast.LtE, ast.Gt, ast.GtE))) or \
                (isinstance(ce, ast.Call) and isinstance(ce.func, ast.Attribute)
                 and ce.func.attr in ('issubset', 'issuperset', 'difference', 'isdisjoint'))
            tagged = any(isinstance(x, ast.Name) and '@' in x.id for x in ast.walk(ce))
            if one_way and (verdict is None or (isinstance(verdict, tuple) and tagged)):
                verdict = (False, f'the refusal tests `{"" if pol else "not "}{_strip(ce)[:90]}`: a one-directional comparison, so an '
                                  f'input with additional (or, the other way round, missing) field sets is accepted')
                where = r[2]
    if verdict is None and where is None:
        ctx.ob('C09-R2', mg, 'refusal: field sets differ', False, 'merge no longer refuses when field sets differ',
               line=mg.node.lineno, nontrivial=False)
    elif verdict is None and self_cmp is not None:
        ctx.ob('C09-R2', mg, 'reference field sets taken from the first input only', False,
               'the reference field-set name set is rebound on later inputs: on every path the refusal compares the names '
               'of an input with the reference that was just bound from that same input, so it never fires',
               line=self_cmp.lineno)
    elif verdict is None:
        ctx.undecided('C09-R2', mg, 'refusal: field sets differ', 'a raise depends on the field sets in a form that is not recognised')
    elif verdict is True:
        ctx.ob('C09-R2', mg, 'refusal: field sets differ', True, f'raise at line {where.lineno} whenever the names differ '
               'from the reference', line=where.lineno, nontrivial=False)
        # the reference is taken from the first input only
        base = _base_id(ref_name.id)
        loop = _enclosing_loop(where)
        binds = [x for x in walk_no_nested(loop if loop is not None else mg.node)
                 if isinstance(x, (ast.Assign, ast.AnnAssign)) and getattr(x, 'value', None) is not None
                 and any(_is_name(t, base) for t in (x.targets if isinstance(x, ast.Assign) else [x.target]))]
        ok, why = bool(binds), 'the reference field-set names are never bound inside the loop'
        for x in binds:
            try:
                hs = prov.sym(mg, lambda n, x=x: n is x).hits
            except SymUndecided as ex:
                ctx.undecided('C09-R2', mg, norm(x)[:60], str(ex))
            for hh in hs:
                unset = hh.state.fact(f'{ref_name.id} is None') is True or hh.state.fact(ref_name.id) is False
                if not unset:
                    ok, why = False, f'`{norm(x)[:70]}` rebinds the reference on later inputs'
                elif not mentions_nc(hh.ev(x.value)):
                    ok, why = False, f'`{norm(x)[:70]}` does not bind the field-set names of the input'
        ctx.ob('C09-R2', mg, 'reference field sets taken from the first input only', ok,
               f'`{base}` is bound only while it is still unset' if ok else
               f'the reference field-set name set is rebound on later inputs: {why}',
               line=(binds[0].lineno if binds else mg.node.lineno))
    else:
        ctx.ob('C09-R2', mg, 'refusal: field sets differ', False,
               'merge no longer refuses when field sets differ: ' + verdict[1], line=where.lineno)

    # ---- identified / unidentified ---------------------------------------------------------------------------
    covered: set[tuple[bool, bool]] = set()      # (reference input unidentified, this input unidentified)
    aggregate = False
    about = None
    unknown = None
    MIXED = {'ALL': False, 'ANY': True}      # not every input identified, but some

    def value_in_mixed(ag):
        """truth value, for a mixed list, of all(/any( over "identified" / "unidentified" """
        fn, identified = ag
        if fn == 'all':
            return MIXED['ALL'] if identified else not MIXED['ANY']
        return MIXED['ANY'] if identified else not MIXED['ALL']

    for r in raises:
        agg_facts = []      # truth of each aggregate fact of the path when the inputs are mixed
        per = []
        for e, p in facts_of(r):
            k, pol, ce = canon_fact(e, p)
            if isinstance(ce, ast.Compare) and isinstance(ce.ops[0], ast.Eq):
                a, b = _identified_aggregate(prov, ce.left), _identified_aggregate(prov, ce.comparators[0])
                if a and b:
                    agg_facts.append((value_in_mixed(a) == value_in_mixed(b)) == pol)
                    about = about or r[2]
                    continue
            ag = _identified_aggregate(prov, ce)
            if ag is not None:
                agg_facts.append(value_in_mixed(ag) == pol)
                about = about or r[2]
                continue
            nt = _none_test(ce)
            if nt is not None and (_about_groups(nt[0]) or _is_group_element(prov, nt[0])):
                about = about or r[2]
                cur = any(isinstance(x, ast.Name) and x.id == ELEM for x in ast.walk(nt[0]))
                per.append((cur, nt[1] == pol))      # (is about the current input, says "unidentified")
            elif _about_groups(ce):
                unknown = _strip(ce)
        # the aggregate tests of this raise path all hold for a mixed list: the path refuses it
        if agg_facts and all(agg_facts):
            aggregate, about = True, r[2]
        if any(c for c, _ in per) and any(not c for c, _ in per):
            for ref_un in (True, False):
                for cur_un in (True, False):
                    if all((cur_un if c else ref_un) == un for c, un in per):
                        covered.add((ref_un, cur_un))
    if aggregate or {(True, False), (False, True)} <= covered:
        ctx.ob('C09-R2', mg, 'refusal: mixed identifier use', True, f'raise at line {about.lineno}', line=about.lineno,
               nontrivial=False)
        return True
    elif covered:
        missing = {(True, False): 'an unidentified store followed by an identified one',
                   (False, True): 'an identified store followed by an unidentified one'}
        miss = [v for k, v in missing.items() if k not in covered]
        ctx.ob('C09-R2', mg, 'refusal: mixed identifier use', False,
               f'merge no longer refuses when mixed identifier use: the per-input test does not cover {miss[0]}',
               line=about.lineno)
    elif about is None and unknown is None:
        ctx.ob('C09-R2', mg, 'refusal: mixed identifier use', False, 'merge no longer refuses when mixed identifier use',
               line=mg.node.lineno, nontrivial=False)
    else:
        ctx.undecided('C09-R2', mg, 'refusal: mixed identifier use', f'identifier test not recognised ({unknown or "?"})')


def _is_group_element(prov, e: ast.expr) -> bool:
    """e is one element (constant subscript) of a list whose elements are the index groups of the inputs"""
    if isinstance(e, ast.Subscript) and isinstance(e.slice, ast.Constant):
        s = prov.seq(e.value)
        return isinstance(s, Seq) and _about_groups(s.elem)
    return False


def rule_locate_arith(ctx, prog, m):
    """C09-R3, decided on the symbolic paths of _load_trajectory to each record read (through guard clauses, tuple
    returns and helpers): under `size table exists` the file position is the bisect of *that* table for the requested
    index, it is bounded before use, the group read belongs to the located file of the same file set, and the record
    index is the requested index relative to that file."""
    paths, ld = locate_paths(ctx, 'C09-R3', prog, m)
    idx = ld.params[1]
    n_table = 0
    for p in paths:
        t = p.table_none()
        others = p.other_tables()
        if t is True or (t is None and not p.uses_table() and all(pol for _, pol in others)):
            continue        # direct single-file read: C07-R1c
        n_table += 1
        line = p.hit.node.lineno
        X, F = norm(p.X), p.F
        # --- which table, which key
        if not (isinstance(F, ast.Call) and call_name(F).split('.')[-1] in ('bisect_left', 'bisect_right', 'bisect')
                and len(F.args) >= 2 and not F.keywords):
            if t is None and others:
                ctx.ob('C09-R3', ld, f'file position {_strip(F)[:60]}', False,
                       f'the position is decided by the size table of {_strip(others[0][0])}, the records are read from '
                       f'the files of {_strip(p.X)}', line=line)
                continue
            ctx.undecided('C09-R3', ld, _strip(F)[:80], 'file position is not a bisect of the size table')
        fn = call_name(F).split('.')[-1]
        tab, a1 = F.args[0], F.args[1]
        same = isinstance(tab, ast.Attribute) and tab.attr == 'size_index' and norm(tab.value) == X
        if not same:
            ctx.ob('C09-R3', ld, f'{_strip(F)[:80]}', False,
                   f'the file is located with `{_strip(tab)}` but the records are read from the files of `{_strip(p.X)}`: '
                   f'a field set whose constituent files have other lengths is read at the wrong position', line=line)
            continue
        if t is not False:
            ctx.undecided('C09-R3', ld, _strip(F)[:80], 'the size table is searched on a path that did not establish that it exists')
        d = _diff(a1, ast.Name(id=idx, ctx=ast.Load()))
        if d is None:
            ctx.undecided('C09-R3', ld, _strip(F)[:80], 'bisect form not recognised')
        good = (fn == 'bisect_left' and d == 1) or (fn in ('bisect_right', 'bisect') and d == 0)
        ctx.ob('C09-R3', ld, _strip(F), good,
               'first file whose cumulative count exceeds the index' if good else
               'off by one: an index equal to a cumulative count is located in the wrong file', line=line)
        # --- bound
        ft = norm(F)
        bounded = p.state.fact(f'{ft} < len({X}.size_index)') is True \
            or p.state.fact(f'{ft} == len({X}.size_index)') is False \
            or p.state.fact(f'{idx} < {X}.size_index[-1]') is True
        in_try = any(isinstance(a, ast.Try) and any(h.type is None or 'IndexError' in norm(h.type) or 'Exception' in norm(h.type)
                                                   for h in a.handlers) for a in ancestors(p.hit.node))
        if not bounded and in_try:
            ctx.undecided('C09-R3', ld, 'file index bound', 'bound delegated to an exception handler')
        ctx.ob('C09-R3', ld, 'file index bounded before use', bounded,
               'a position past the last file leaves before the file lists are subscripted' if bounded else
               'an index past the last file is used to subscript the file lists', line=line)
        # --- group of the located file, of the same file set
        keyed = isinstance(p.X, ast.Subscript) and norm(p.X.slice) == norm(p.K)
        ctx.ob('C09-R3', ld, f'group = {_strip(p.var)[:70]}', True if keyed or not isinstance(p.X, ast.Subscript) else False,
               'group of the located file' if keyed or not isinstance(p.X, ast.Subscript) else
               f'reads the groups of field set `{_strip(p.K)}` from the files of `{_strip(p.X)}`', line=line,
               nontrivial=keyed)
        # --- local index
        S_F = ast.Subscript(value=tab, slice=F, ctx=ast.Load())
        base = ast.BinOp(left=ast.Name(id=idx, ctx=ast.Load()), op=ast.Sub(), right=S_F)
        nr, nb = _nf(p.rec), _nf(base)
        verdict = None
        if nr is None or nb is None:
            ctx.undecided('C09-R3', ld, _strip(p.rec)[:80], 'local index arithmetic not recognised')
        rest = nr - nb
        own_len = f'len({X}.traj_dim[{ft}])'
        if rest.is_zero():
            verdict = (True, 'index relative to the located file (negative offset from its cumulative end)')
        else:
            atoms = rest.atoms()
            strip_own = _nf(ast.parse(_strip(own_len), mode='eval').body)
            if (rest - strip_own).is_zero():
                verdict = (True, 'index minus the first index of the located file (cumulative end less its own length)')
            elif len(atoms) == 1 and 'traj_dim' in next(iter(atoms)) and next(iter(atoms)).startswith('len('):
                used = [x for x in ast.walk(p.rec) if isinstance(x, ast.Call) and call_name(x) == 'len'
                        and 'traj_dim' in norm(x)]
                verdict = (False, f'the start of the located file is computed with `{_strip(used[0]) if used else "?"}`, '
                                  f'which is not the length of the located file `{_strip(own_len)}`: wrong for every '
                                  f'file but that one')
        if verdict is None:
            # index - size_index[F - 1]  (needs F > 0)   /   index itself (needs F == 0)
            prev = ast.BinOp(left=ast.Name(id=idx, ctx=ast.Load()), op=ast.Sub(),
                             right=ast.Subscript(value=tab, slice=ast.BinOp(left=F, op=ast.Sub(), right=ast.Constant(value=1)),
                                                 ctx=ast.Load()))
            positive = p.state.fact(f'0 < {ft}') is True or p.state.fact(f'{ft} == 0') is False \
                or p.state.fact(f'{ft} < 1') is False or p.state.fact(ft) is True
            zero = p.state.fact(f'0 < {ft}') is False or p.state.fact(f'{ft} == 0') is True \
                or p.state.fact(f'{ft} < 1') is True or p.state.fact(ft) is False
            if _same_nf(p.rec, prev):
                verdict = (True, 'index minus the cumulative count before the located file') if positive else \
                    (False, 'subtracts size_index[file - 1] also for the first file: size_index[-1] is the total')
            elif _is_name(p.rec, idx):
                verdict = (True, 'first file: the index itself') if zero else \
                    (False, 'the requested index is used unchanged inside a constituent file of a merged store')
            elif isinstance(p.rec, ast.BinOp) and not any(isinstance(x, ast.Attribute) and x.attr == 'size_index'
                                                          for x in ast.walk(p.rec)):
                verdict = (False, 'the local index does not depend on the size table')
        if verdict is None:
            ctx.undecided('C09-R3', ld, _strip(p.rec)[:80], 'local index arithmetic not recognised')
        ctx.ob('C09-R3', ld, f'local index = {_strip(p.rec)[:100]}', verdict[0],
               verdict[1] if verdict[0] else 'local index arithmetic does not select the record inside the located file: '
               + verdict[1], line=line)
    ctx.floor('C09-R3', n_table, 1, 'paths that locate a record through the size table')


def _same_nf(a, b) -> bool:
    na, nb = _nf(a), _nf(b)
    return na is not None and nb is not None and (na - nb).is_zero()
