"""C09 — a merged store equals the concatenation of its inputs.

Three kinds of decision procedure, none of them tied to a statement shape:

* provenance (`Prov`): list values are followed as "order-preserving image of a source list with element function f"
  through `list()/tuple()`, comprehensions and generator expressions without filter, `zip/enumerate/map`, accumulator
  loops (`acc = []; for x in S: ...; acc.append(E)` with exactly one append per iteration - a `continue` *behind* the
  append, the guard clause for the rest of the body, ends an iteration that has appended; a `break`, or a `continue`
  above the append, can skip; the append may stand in `with` blocks of the loop body, whose body runs once, and `with V as x`
  binds V itself where the `__enter__` of V's class is `return self` - also a hand-written running sum; a zip partner
  `[a, *accumulate(S[:-1])]` / `[a, *S[1:]]` is as long as S, its values go by position, not by element), single assignments, NamedTuple / tuple packing and helper parameters; scalar values along the symbolic paths of
  a function (`sa.rules.c07.Sym`).  `sorted/set/reversed`, directory listings (`glob/iterdir/os.listdir`), slices,
  filters and in-place `.sort()/.reverse()/shuffle` break the image - definitely.  A derivation the engine does not
  know is UNDECIDED, never a violation.
* bounded interpretation (`TruthTable`): `merge` and the merged-index builder are *interpreted* (an abstract
  interpreter over the AST - nothing of the repository is imported or run) on model inputs, exhaustively within small
  bounds: every sequence of up to 3 inputs that are identified / unidentified, every sequence of up to 3 inputs with
  field-set names {base} / {base, x} / {base, y}, every tuple of up to 3 parts with 1..3 trajectories (the last once
  with small flight identifiers and once with identifiers that only a 64-bit integer holds exactly; numpy arrays carry
  their element type and hold their values as that type holds them: creation with / without dtype, promotion, astype,
  division, the type of the netCDF variable written to).  Only what
  the code computes from constants and from what the tables vary has a value; paths, files and library calls are
  opaque; a branch on an opaque test forks, and a raise that hangs on such a branch is somebody else's refusal; a
  branch on something read from an input store that the model does not know is UNDECIDED.  Helpers (private functions
  of the module, nested functions, lambdas) are entered.  Helper *objects* are modelled: `K(...)` for a plain class K of
  the repository makes an instance and interprets `__init__` on it; its methods and properties are entered, `with K(...)
  as k` runs `__enter__` and, where the body is left without an exception, `__exit__`; an attribute the instance has not
  bound itself is the object of the *class* (bound once in the class body, one object for all instances), so
  `self.acc += [...]` / `self.acc.append(..)` on a class-level list changes that one object; default values of parameters
  are likewise one object per function.  This state of the process survives a run (`run(carry=...)`).
* symbolic paths (`Sym`) with exact normal forms for the locate arithmetic.

R1  order preservation.  (a) `_check_merge_arguments` returns, on every return path, the caller's list element for
    element, or the inclusive ascending expansion of the numbered pattern: an order-preserving image of a `range(...)`
    whose elements are the pattern parameter formatted with `index=E(i)`, where - by exact linear normal forms, whatever
    the spelling (`range(first, last + 1)` with `i`, `range(last - first + 1)` with `first + i`, a count-down with
    `last - k`, bounds read by position, by unpacking, through a record and its methods) - E at the first element is
    range[0], E advances by exactly 1 per element and E at the last element is range[1]; a definite difference in terms
    of the two bounds (wrong start, exclusive end, descending, stride) is a violation that names it.  (b) In `merge`
    the `stores` entry of the metadata document (looked for in merge, in the private helpers and in any helper that
    builds the document, wherever it is kept - another module, a public function), the list handed to the
    merged-index builder and the relocation loop
    are images of that returned list (relocation: of all its elements, in any order).  (c) `_open_merged_store`
    derives file paths, datasets, dimensions, variables, every group list and the cumulative size table from
    `metadata['stores']` through order-preserving images only; the size table is the running sum (accumulate / cumsum /
    hand-written) of the lengths of exactly the dimensions stored next to it.  The document may be kept in a helper
    object: a value made by a constructor or by a class / static method or module-level function annotated `-> K` has
    class K, and a read-only property or a computing method of K whose body is single assignments and one `return E`
    (`metadata.store_names`, `metadata.store_names()`) is E over that object.
R2  refusals present (their position before any file-system effect is C10-R2), by bounded interpretation of `merge`:
    every sequence of up to three inputs whose field-set names are not all equal reaches a raise (subset, superset and
    same-size-different-names cases, in every position), and so does every sequence that mixes identified and
    unidentified inputs; the uniform sequences are accepted: a uniform sequence (a single input included) that reaches a
    raise of merge on every interpreted path is a violation - a valid list is refused - and the report says which
    sequences are refused and which mixed ones pass (e.g. exactly those in which all inputs but the first agree: the
    first input takes no part in the test).  A failing `assert` is not a refusal.  (Sets of names,
    sets of frozensets / tuples of names, every set operator and comparison are evaluated; a violation says what the
    accepted sequences have in common: one-sided comparison, sizes compared.)
R3  locate arithmetic, per path of `_load_trajectory` to a record read under "size table exists": the file position
    is bisect_left(table, index + 1) / bisect_right(table, index) of the table of the *same* file set whose groups
    are read, the position is bounded before use, and the record index is the requested index relative to the located
    file (index - table[file]; index - table[file] + len(dim[file]); index - table[file - 1] behind file > 0; the index
    itself behind file == 0).  The paths go through helpers and through a computing query method of the file-set object
    (`files.locate(index)`) that hands (file, record index) back as a tuple, a NamedTuple or a plain `@dataclass` record,
    or None for "no such trajectory": building a plain record is no effect, the record is not None, `K(a, b).f` is the
    argument given for f (`K(a, b)[1]` for a NamedTuple).
R4  the metadata records, per input, (the base name under which the input is moved into the output directory, the
    length of the store opened on that input) - as a pair or a NamedTuple; the relocation moves the input itself to
    <output>/<that name>.
R5  merged index (C08-R3).  (a) The stores the builder opens and walks are an order-preserving image of one of its
    parameters, and the argument merge passes for it is an image of the checked input list; the store opened at step k
    is made from input k.  (b) By bounded interpretation of the builder on model parts: what it stores into the two
    index variables maps every flight identifier (ascending, and unchanged: no passage through a float or a narrower
    integer) to the position of its trajectory in the concatenation of the parts in the order given.  The builder is
    handed, per input, what merge hands it: the input itself, or the element of merge's argument evaluated on the model
    input (a record / pair of the input's name and `len(<store opened on it>)`, ...), so a count taken from that
    record is the model's count exactly when merge recorded the length of that input.  The builder may keep its
    accumulators in a helper object (writer class, context manager).  (c) A merge is not the only one of its process:
    when the builder leaves mutable state behind that outlives the call (a list / dict bound in a class body, a mutable
    parameter default), it is interpreted a second time with that state carried over and must store the right index
    again; if not, the report names the attribute that carries the entries of the earlier call over.  (When (b) cannot
    be decided the shape rule `c08.rule_offsets` is used.)
R6  the merged index is built for every uniformly identified sequence of 1..3 inputs and for no unidentified one (the
    reader of a merged store consults nothing else) - by the same interpretation of `merge` as R2.
"""

from __future__ import annotations

import ast
import copy

from ..astutil import (MUTATING_METHODS, ancestors, arg_or_kw, assigned_names, call_name, kwarg, norm, stmt_of,
                       walk_no_nested)
from ..loader import parent
from ..resolve import resolve_call, resolve_class_call
from .c07 import (VOCAB_CLASSES, LocatePath, Sym, SymState, SymUndecided, _PURE_FUNCS, _PURE_METHODS, _PURE_ROOTS, _ann_to_class, _base_id,
                  _diff, _is_name, _nf, _strip, canon_fact, find_member, locate_paths, mentions_heap)

STORE = 'trajectories/store.py'
ELEM = '__elem__'
RUNSUM = '__running_sum__'
BY_POSITION = '__by_position__'        # element of a list as long as its source whose values are not per-element
REORDERING = {'sorted': 'sorted() re-orders the elements', 'set': 'a set has no order and drops repeats',
              'frozenset': 'a set has no order and drops repeats', 'reversed': 'reversed() inverts the order',
              'random.sample': 'random.sample() re-orders', 'dict.fromkeys': 'drops repeats'}
TRANSPARENT = {'list', 'tuple', 'iter', 'copy.copy'}
LISTING_FUNCS = {'os.listdir', 'os.scandir', 'os.walk', 'glob.glob', 'glob.iglob', 'listdir', 'scandir'}
LISTING_METHODS = {'glob', 'rglob', 'iterdir'}
LISTING_WHY = 'a directory listing comes in the order of the file system, not in the order in which the inputs were given'


# ------------------------------------------------------------------------------------------------ provenance

class Seq:
    """the list `[elem(e) for e in <src>]`, in the order of src and of the same length"""

    def __init__(self, src: str, elem: ast.expr):
        self.src, self.elem = src, elem

    def __repr__(self):
        return f'[{_strip(self.elem)} for {ELEM} in {self.src}]'


class Broken:
    def __init__(self, why: str, definite: bool):
        self.why, self.definite = why, definite


def _by_position(e: ast.expr) -> bool:
    return isinstance(e, ast.Call) and isinstance(e.func, ast.Name) and e.func.id == BY_POSITION


def _elem() -> ast.Name:
    return ast.Name(id=ELEM, ctx=ast.Load())


def subst(e: ast.expr, mapping: dict[str, ast.expr]) -> ast.expr:
    class T(ast.NodeTransformer):
        def visit_Name(self, n):
            if n.id in mapping:
                return copy.deepcopy(mapping[n.id])
            return n
    return T().visit(copy.deepcopy(e))


def bind_target(target: ast.expr, value: ast.expr, tag: str = '') -> dict[str, ast.expr]:
    """names bound by `for <target> in …` / a comprehension target -> expression over the iterated element"""
    if isinstance(target, ast.Name):
        return {target.id + tag: value}
    out = {}
    if isinstance(target, (ast.Tuple, ast.List)) and not any(isinstance(x, ast.Starred) for x in target.elts):
        for i, t in enumerate(target.elts):
            comp = value.elts[i] if isinstance(value, (ast.Tuple, ast.List)) and len(value.elts) == len(target.elts) \
                else ast.Subscript(value=copy.deepcopy(value), slice=ast.Constant(value=i), ctx=ast.Load())
            out.update(bind_target(t, comp, tag))
    return out


def canon(e: ast.expr) -> str:
    """text of a path-valued expression with the conversions that do not change which file it names removed"""
    class T(ast.NodeTransformer):
        def visit_Call(self, n):
            self.generic_visit(n)
            cn = call_name(n)
            if cn in ('Path', 'str', 'os.fspath', 'pathlib.Path', 'os.path.normpath') and len(n.args) == 1 and not n.keywords:
                return n.args[0]
            if cn == 'os.path.basename' and len(n.args) == 1:
                return ast.Attribute(value=n.args[0], attr='name', ctx=ast.Load())
            if cn == 'os.path.join' and len(n.args) >= 2:
                out = n.args[0]
                for a in n.args[1:]:
                    out = ast.BinOp(left=out, op=ast.Div(), right=a)
                return out
            return n
    return _strip(T().visit(copy.deepcopy(e)))


def record_class(cls) -> bool:
    """a plain record: `NamedTuple`, or a `@dataclass` whose construction only stores its arguments (no `__init__` /
    `__new__` / `__post_init__`, no attribute hooks, no repository base class) - `K(a, b).f` is then the argument
    given for f, and building one changes nothing"""
    if cls is None or getattr(cls, 'bases', None):
        return False
    decs = [ast.unparse(d).split('(')[0].split('.')[-1] for d in cls.node.decorator_list]
    nt = any(str(b).split('.')[-1].split('[')[0] == 'NamedTuple' for b in getattr(cls, 'base_exprs', []))
    if not (nt or 'dataclass' in decs) or any(d != 'dataclass' for d in decs):
        return False
    if any(find_member(cls, n) is not None for n in ('__init__', '__new__', '__post_init__', '__getattr__',
                                                     '__getattribute__', '__setattr__')):
        return False
    flds = cls.annotated_fields()
    return bool(flds) and not any('ClassVar' in ast.unparse(a) or 'InitVar' in ast.unparse(a) for a in flds.values())


def record_ctor_fields(prog, m, c: ast.AST):
    """{field: argument expression} of the record construction `K(a, b, f=c)` (constant defaults filled in), else None"""
    if not isinstance(c, ast.Call) or any(isinstance(a, ast.Starred) for a in c.args) or any(k.arg is None for k in c.keywords):
        return None
    cls = class_of(prog, m, c.func)
    if not record_class(cls):
        return None
    fields = list(cls.annotated_fields())
    if len(c.args) > len(fields):
        return None
    out = dict(zip(fields, c.args))
    for k in c.keywords:
        if k.arg not in fields or k.arg in out:
            return None
        out[k.arg] = k.value
    for f, d in cls.class_assignments().items():
        if f in fields and f not in out and isinstance(d, ast.Constant):
            out[f] = d
    return {f: out[f] for f in fields} if len(out) == len(fields) else None


def fold_records(prog, m, e: ast.expr) -> ast.expr:
    """`K(a, b).f` -> the argument given for field f (K a plain record class); `K(a, b)[1]` -> b (K a NamedTuple)"""
    if not any(isinstance(x, (ast.Attribute, ast.Subscript)) and isinstance(x.value, ast.Call) for x in ast.walk(e)):
        return e

    class T(ast.NodeTransformer):
        def visit_Attribute(self, n):
            self.generic_visit(n)
            if isinstance(n.value, ast.Call) and isinstance(n.ctx, ast.Load):
                f = record_ctor_fields(prog, m, n.value)
                if f is not None and n.attr in f:
                    return copy.deepcopy(f[n.attr])
            return n

        def visit_Subscript(self, n):
            self.generic_visit(n)
            if isinstance(n.value, ast.Call) and isinstance(n.ctx, ast.Load) and isinstance(n.slice, ast.Constant) \
                    and isinstance(n.slice.value, int) and not isinstance(n.slice.value, bool):
                f = record_ctor_fields(prog, m, n.value)
                cls = class_of(prog, m, n.value.func) if f is not None else None
                if f is not None and -len(f) <= n.slice.value < len(f) \
                        and not any(ast.unparse(d).split('(')[0].split('.')[-1] == 'dataclass' for d in cls.node.decorator_list):
                    return copy.deepcopy(list(f.values())[n.slice.value])
            return n
    return T().visit(e)


def computes_only(prog, fn) -> bool:
    """a method that only computes (`c07._effect_free`), where building a plain record to hand the result back counts
    as computing"""
    for n in walk_no_nested(fn.node):
        if isinstance(n, (ast.Attribute, ast.Subscript)) and isinstance(n.ctx, (ast.Store, ast.Del)):
            return False
        if isinstance(n, (ast.Global, ast.Nonlocal, ast.Yield, ast.YieldFrom, ast.Await, ast.With, ast.AsyncWith)):
            return False
        if isinstance(n, ast.Call):
            name = call_name(n)
            if not (name in _PURE_FUNCS or any(name == r or name.startswith(r + '.') for r in _PURE_ROOTS)
                    or (isinstance(n.func, ast.Attribute) and n.func.attr in _PURE_METHODS)
                    or record_class(class_of(prog, fn.module, n.func))):
                return False
    return True


class _Sym(Sym):
    """symbolic paths that also go through the helpers the rule asks for (`enter(callee)`), wherever they are kept: a
    public function, a function of another module (what the construct a rule looks for is does not depend on the file
    it was moved to).  Results handed back in a plain record (`return Loc(file=f, rec=r)` … `loc.file`) are followed:
    building the record is no effect, it is never None, and a field read of it is the argument given for the field.
    A value made by an alternative constructor (`K.read(p)`, a class / static method annotated `-> K`) has class K, so
    its single-expression properties are opened like those of any other helper object."""
    enter = None

    def ev(self, e: ast.expr, st) -> ast.expr:
        return fold_records(self.prog, self.rootfi.module, Sym.ev(self, e, st))

    def truth(self, e: ast.expr, st):
        r = Sym.truth(self, e, st)
        if r is None:
            _k, pol, ce = canon_fact(e, True)
            if isinstance(ce, ast.Compare) and len(ce.ops) == 1 and isinstance(ce.ops[0], (ast.Is, ast.Eq)) \
                    and isinstance(ce.comparators[0], ast.Constant) and ce.comparators[0].value is None \
                    and record_ctor_fields(self.prog, self.rootfi.module, ce.left) is not None:
                return False == pol         # noqa: E712  - a freshly built record is not None
        return r

    def _pure_call(self, c: ast.Call) -> bool:
        return Sym._pure_call(self, c) or record_class(class_of(self.prog, self.fi.module, c.func))

    def class_of(self, v: ast.AST):
        c = Sym.class_of(self, v)
        if c is None and isinstance(v, ast.Call) and isinstance(v.func, (ast.Attribute, ast.Name)):
            key = 'alt:' + norm(v)
            if key not in self._cls_memo:
                k = meth = None
                m = self.rootfi.module
                if isinstance(v.func, ast.Name):
                    # a module-level function annotated `-> K`
                    try:
                        meth = self.prog.resolve_name(m, v.func.id)
                    except Exception:
                        meth = None
                    if not (hasattr(meth, 'node') and isinstance(meth.node, (ast.FunctionDef, ast.AsyncFunctionDef))
                            and getattr(meth, 'cls', None) is None):
                        meth = None
                elif isinstance(v.func.value, (ast.Name, ast.Attribute)):
                    owner = class_of(self.prog, m, v.func.value)
                    meth = find_member(owner, v.func.attr) if owner is not None else None
                    if meth is not None and not any(d.split('.')[-1] in ('classmethod', 'staticmethod')
                                                    for d in meth.decorators()):
                        meth = None
                if meth is not None and meth.node.returns is not None and not isinstance(meth.node, ast.AsyncFunctionDef) \
                        and not any(isinstance(x, (ast.Yield, ast.YieldFrom)) for x in walk_no_nested(meth.node)):
                    k = _ann_to_class(self.prog, meth.module, meth.node.returns)
                    if k is not None and (k is self.rootfi.cls or k.name in VOCAB_CLASSES):
                        k = None
                self._cls_memo[key] = k
            c = self._cls_memo[key]
        return c

    def _summarisable(self, c: ast.Call, *state):
        r = Sym._summarisable(self, c, *state)
        if r is None and self.depth < 2 and isinstance(c.func, ast.Attribute) and state and state[0] is not None:
            # a named query on a helper object that hands its result back in a record
            try:
                cls = self.class_of(self.ev(c.func.value, state[0].fork()))
                meth = find_member(cls, c.func.attr)
            except Exception:
                meth = None
            if meth is not None and meth is not self.fi and not meth.name.startswith('__') \
                    and meth.name not in self.opaque and not meth.decorators() \
                    and not any(isinstance(a, ast.Starred) for a in c.args) and not any(k.arg is None for k in c.keywords) \
                    and computes_only(self.prog, meth):
                return meth
        if r is not None or self.enter is None or self.depth >= 2:
            return r
        try:
            callee = resolve_call(self.prog, self.fi, c)
        except Exception:
            return None
        if callee is None or callee == self.fi or callee.name in self.opaque or not hasattr(callee, 'node'):
            return None
        if any(isinstance(x, (ast.Yield, ast.YieldFrom, ast.Await)) for x in walk_no_nested(callee.node)):
            return None
        if any(d.split('.')[-1].split('(')[0] not in ('staticmethod', 'classmethod') for d in callee.decorators()):
            return None
        if any(isinstance(a, ast.Starred) for a in c.args) or any(k.arg is None for k in c.keywords):
            return None
        return callee if self.enter(callee) else None

    def _call(self, callee, c: ast.Call, st):
        """`Sym._call`, with the helper walked by a Sym of this class (records, `enter`) - otherwise identical"""
        a = callee.node.args
        pos = [x.arg for x in a.posonlyargs + a.args]
        defaults = dict(zip(reversed(pos), reversed(a.defaults)))
        for k, d in zip(a.kwonlyargs, a.kw_defaults):
            if d is not None:
                defaults[k.arg] = d
        names = pos + [x.arg for x in a.kwonlyargs]
        bind: dict[str, ast.expr] = {}
        decs = [d.split('.')[-1] for d in callee.decorators()]
        same_recv = False
        if callee.cls is not None and 'staticmethod' not in decs:
            if not isinstance(c.func, ast.Attribute) or not pos:
                return None
            if callee.name in ('__init__', '__post_init__', '__new__'):
                return None
            rv = self.ev(c.func.value, st.fork())
            if 'classmethod' not in decs:
                same_recv = self.recv is not None and isinstance(c.func.value, ast.Name) \
                    and c.func.value.id == self.recv == pos[0] and self.recv not in st.env
            if not same_recv:
                bind[pos[0]] = rv
            pos = pos[1:]
        if len(c.args) > len(pos) and not a.vararg:
            return None
        for p, x in zip(pos, c.args):
            bind[p] = self.ev(x, st)
        if a.vararg:
            bind[a.vararg.arg] = ast.Tuple(elts=[self.ev(x, st) for x in c.args[len(pos):]], ctx=ast.Load())
        extra = []
        for k in c.keywords:
            if k.arg in bind:
                return None
            if k.arg not in names:
                if not a.kwarg:
                    return None
                extra.append((k.arg, self.ev(k.value, st)))
                continue
            bind[k.arg] = self.ev(k.value, st)
        if a.kwarg:
            bind[a.kwarg.arg] = ast.Dict(keys=[ast.Constant(value=k) for k, _ in extra], values=[v for _, v in extra])
        for p in names:
            if p not in bind:
                if same_recv and p == self.recv and self.enter_methods:
                    continue
                if p not in defaults:
                    return None
                bind[p] = copy.deepcopy(defaults[p])
        sub = type(self)(self.prog, callee, self.depth + 1, parent=self, cap=64)
        sub.enter = self.enter
        init = SymState(bind, st.facts, st.epoch, st.clob, st.trace)
        if same_recv and sub.recv is not None:
            for k, v in st.env.items():
                if k.startswith(self.recv + '.'):
                    init.env[sub.recv + k[len(self.recv):]] = v
        try:
            sub.run(init=init)
        except SymUndecided:
            return None
        if len(sub.returns) > 16:
            return None
        out = []
        for rst, rv, _ in sub.returns:
            new = SymState(st.env, rst.facts, rst.epoch, rst.clob, rst.trace)
            gone = {_base_id(r) for r in rst.clob} - {_base_id(r) for r in st.clob}
            if '<locals>' not in callee.qualname:
                mine = set()
                for r in gone:
                    if same_recv and sub.recv is not None and r == sub.recv:
                        mine.add(self.recv)
                    elif r in bind:
                        mine |= {_base_id(x.id) for x in ast.walk(bind[r]) if isinstance(x, ast.Name)} & self._locals
                gone = mine
                new.clob = set(st.clob) | gone
                new.epoch = dict(st.epoch)
                for r in gone:
                    new.epoch[r] = new.epoch.get(r, 0) + 1
            if gone:
                for k, v in list(new.env.items()):
                    if any(mentions_heap(v, r) for r in gone) or ('.' in k and k.split('.')[0] in gone):
                        new.env[k] = self._fresh(k, c)
            if same_recv and sub.recv is not None:
                for k, v in rst.env.items():
                    if k.startswith(sub.recv + '.'):
                        new.env[self.recv + k[len(sub.recv):]] = v
            elif sub.recv is not None and any(k.startswith(sub.recv + '.') for k in rst.env):
                self.clobber(new, {x.id for x in ast.walk(bind.get(callee.params[0], ast.Name(id=sub.recv)))
                                   if isinstance(x, ast.Name)}, c)
            out.append((new, rv if rv is not None else ast.Constant(value=None)))
        return out


def class_of(prog, m, func: ast.expr):
    """the repository class that the expression `func` names inside module m (defined there, or imported from the module
    it is kept in), else None"""
    try:
        cls = prog.resolve_class_expr(m, func)
    except Exception:
        cls = None
    if cls is not None:
        return cls
    name = func.id if isinstance(func, ast.Name) else (func.attr if isinstance(func, ast.Attribute) else None)
    return next((k for q, k in m.classes.items() if q.split('.')[-1] == name), None) if name is not None else None


class Prov:
    def __init__(self, ctx, prog, m, fn, root, opaque=(), enter=None):
        """root(expr) -> key of the source list that expr denotes, or None;  enter(callee) -> also look through this
        helper (besides the private helpers of the module)"""
        self.ctx, self.prog, self.m, self.fn, self.root, self.opaque = ctx, prog, m, fn, root, set(opaque)
        self.enter = enter
        self.origin: dict[str, object] = {}
        self.lists: set[str] = set()           # local names that hold an image of a source

    def sym(self, fn, target=None) -> Sym:
        s = _Sym(self.prog, fn)
        s.enter = self.enter
        s.opaque = self.opaque
        s.run(target)
        self.origin.update(s.origin)
        return s

    # -- simplification of element expressions: field of a freshly built record, component of a tuple
    def simp(self, e: ast.expr) -> ast.expr:
        prov = self

        class T(ast.NodeTransformer):
            def visit_Attribute(self, n):
                self.generic_visit(n)
                v = n.value
                if isinstance(v, ast.Call):
                    f = prov._record_fields(v)
                    if f is not None and n.attr in f:
                        return f[n.attr]
                return n

            def visit_Subscript(self, n):
                self.generic_visit(n)
                if isinstance(n.slice, ast.Constant) and isinstance(n.slice.value, int):
                    i = n.slice.value
                    if isinstance(n.value, (ast.Tuple, ast.List)) and -len(n.value.elts) <= i < len(n.value.elts):
                        return n.value.elts[i]
                    if isinstance(n.value, ast.Call):
                        f = prov._record_fields(n.value)
                        if f is not None and 0 <= i < len(f):
                            return list(f.values())[i]
                return n

            def visit_Call(self, n):
                self.generic_visit(n)
                if isinstance(n.func, ast.Attribute) and n.func.attr == '__enter__' and not n.args and not n.keywords \
                        and prov._enter_is_self(n.func.value):
                    return n.func.value         # `with V as x`: x is V itself
                return n
        return T().visit(copy.deepcopy(e))

    def _enter_is_self(self, v: ast.expr) -> bool:
        """v is an object of a repository class K - `K(...)`, or `O.f(...)` with f a class / static method of the
        repository class O annotated `-> K` - whose `__enter__` is `return self` and nothing else"""
        if not (isinstance(v, ast.Call) and isinstance(v.func, (ast.Name, ast.Attribute))):
            return False
        k = class_of(self.prog, self.m, v.func)
        if k is None and isinstance(v.func, ast.Attribute) and isinstance(v.func.value, (ast.Name, ast.Attribute)):
            owner = class_of(self.prog, self.m, v.func.value)
            meth = find_member(owner, v.func.attr) if owner is not None else None
            if meth is not None and any(d.split('.')[-1] in ('classmethod', 'staticmethod') for d in meth.decorators()) \
                    and meth.node.returns is not None and not isinstance(meth.node, ast.AsyncFunctionDef) \
                    and not any(isinstance(x, (ast.Yield, ast.YieldFrom)) for x in walk_no_nested(meth.node)):
                k = _ann_to_class(self.prog, meth.module, meth.node.returns)
        ent = find_member(k, '__enter__') if k is not None else None
        if ent is None or ent.decorators() or not ent.params:
            return False
        body = [b for b in ent.node.body
                if not (isinstance(b, ast.Expr) and isinstance(b.value, ast.Constant) and isinstance(b.value.value, str))]
        return len(body) == 1 and isinstance(body[0], ast.Return) and _is_name(body[0].value, ent.params[0])

    def is_named_tuple(self, c: ast.Call) -> bool:
        cls = class_of(self.prog, self.m, c.func)
        return cls is not None and any(str(b).split('.')[-1] == 'NamedTuple' for b in getattr(cls, 'base_exprs', []))

    def _record_fields(self, c: ast.Call):
        cls = class_of(self.prog, self.m, c.func)
        if cls is None:
            return None
        fields = list(cls.annotated_fields().keys())
        if len(c.args) == 1 and isinstance(c.args[0], ast.Starred) and not c.keywords and fields:
            # `Rec(*pair)`: field k is element k of the unpacked sequence (which has exactly that many elements, or the
            # call fails)
            return {f: ast.Subscript(value=copy.deepcopy(c.args[0].value), slice=ast.Constant(value=i), ctx=ast.Load())
                    for i, f in enumerate(fields)}
        if any(isinstance(a, ast.Starred) for a in c.args):
            return None
        if not fields or len(c.args) > len(fields):
            return None
        out = dict(zip(fields, c.args))
        for k in c.keywords:
            if k.arg in fields:
                out[k.arg] = k.value
        return {f: out[f] for f in fields if f in out} if len(out) == len(fields) else None

    def _record_method(self, c: ast.Call):
        """`Rec(a, b).method(x)` for a method of a record class (NamedTuple / dataclass of the module) whose body is one
        `return E`: E over the record's fields and the arguments, else None"""
        f = c.func
        if not (isinstance(f, ast.Attribute) and isinstance(f.value, ast.Call)) or self._record_fields(f.value) is None:
            return None
        cls = class_of(self.prog, self.m, f.value.func)
        meth = cls.find_method(f.attr) if cls is not None else None
        if meth is None:
            return None
        body = [b for b in meth.node.body if not (isinstance(b, ast.Expr) and isinstance(b.value, ast.Constant))]
        decs = meth.decorators()
        if len(body) != 1 or not isinstance(body[0], ast.Return) or body[0].value is None or decs or not meth.params:
            return None
        bound = _bind_call(meth, c)
        if bound is None:
            return None
        bound = dict(bound)
        bound[meth.params[0]] = f.value
        return self.simp(subst(body[0].value, bound))

    def _member_value(self, e: ast.expr):
        """`obj.prop` / `obj.query(args)` for a property / method of a helper class (the class of obj known from
        constructors and annotations) that only computes and whose body is single assignments of locals followed by one
        `return E`: E over obj and the arguments, else None"""
        call = e if isinstance(e, ast.Call) else None
        at = call.func if call is not None else e
        if not isinstance(at, ast.Attribute) or not isinstance(at.ctx, ast.Load):
            return None
        if call is not None and (any(isinstance(a, ast.Starred) for a in call.args) or any(k.arg is None for k in call.keywords)):
            return None
        if getattr(self, '_clsym', None) is None:
            self._clsym = _Sym(self.prog, self.fn)
        try:
            cls = self._clsym.class_of(at.value)
            meth = find_member(cls, at.attr)
        except Exception:
            return None
        if meth is None or not meth.params or meth.name.startswith('__') or not computes_only(self.prog, meth):
            return None
        decs = [d.split('.')[-1].split('(')[0] for d in meth.decorators()]
        if decs != ([] if call is not None else ['property']):
            return None
        body = [b for b in meth.node.body if not (isinstance(b, ast.Expr) and isinstance(b.value, ast.Constant))]
        if not body or not isinstance(body[-1], ast.Return) or body[-1].value is None:
            return None
        bound = {}
        if call is not None:
            bound = _bind_call(meth, call)
            if bound is None:
                return None
            bound = dict(bound)
        bound[meth.params[0]] = at.value
        env = dict(bound)
        for b in body[:-1]:
            if isinstance(b, ast.AnnAssign) and b.value is not None and isinstance(b.target, ast.Name):
                name, val = b.target.id, b.value
            elif isinstance(b, ast.Assign) and len(b.targets) == 1 and isinstance(b.targets[0], ast.Name):
                name, val = b.targets[0].id, b.value
            else:
                return None
            if name in env or any(isinstance(x, (ast.NamedExpr, ast.Lambda)) for x in ast.walk(val)):
                return None         # a parameter / local bound twice
            env[name] = subst(val, env)
        # names bound inside E (comprehension variables) must not be among the substituted ones
        if any(isinstance(x, ast.Name) and isinstance(x.ctx, ast.Store) and x.id in env
                                              for x in ast.walk(body[-1].value)):
            return None
        return self.simp(subst(body[-1].value, env))

    # -- sequences
    def seq(self, e: ast.expr, depth: int = 0):
        if depth > 12:
            return Broken('derivation too deep', False)
        key = self.root(e)
        if key is not None:
            return Seq(key, _elem())
        if isinstance(e, ast.Name):
            fn = self.origin.get(e.id, self.fn)
            return self.accumulator(fn, _base_id(e.id), depth)
        if isinstance(e, (ast.ListComp, ast.GeneratorExp)):
            if len(e.generators) != 1:
                return Broken('nested comprehension', False)
            g = e.generators[0]
            if g.ifs:
                return Broken('the comprehension filters elements out', True)
            s = self.seq(g.iter, depth + 1)
            if isinstance(s, Broken):
                return s
            return Seq(s.src, self.simp(subst(e.elt, bind_target(g.target, s.elem))))
        if isinstance(e, (ast.SetComp, ast.Set)):
            return Broken('a set has no order and drops repeats', True)
        if isinstance(e, ast.Call):
            cn = call_name(e)
            if cn in REORDERING:
                return Broken(f'{cn}(): {REORDERING[cn]}', True)
            if cn in LISTING_FUNCS or (isinstance(e.func, ast.Attribute) and e.func.attr in LISTING_METHODS):
                return Broken(f'{cn}(): {LISTING_WHY}', True)
            if cn in TRANSPARENT and len(e.args) == 1 and not e.keywords:
                return self.seq(e.args[0], depth + 1)
            if isinstance(e.func, ast.Attribute) and e.func.attr == 'copy' and not e.args:
                return self.seq(e.func.value, depth + 1)
            if cn == 'enumerate' and e.args:
                s = self.seq(e.args[0], depth + 1)
                return s if isinstance(s, Broken) else \
                    Seq(s.src, ast.Tuple(elts=[ast.Name(id='__index__', ctx=ast.Load()), s.elem], ctx=ast.Load()))
            if cn == 'zip' and e.args and not e.keywords:
                self._in_zip = getattr(self, '_in_zip', 0) + 1
                try:
                    parts = [self.seq(a, depth + 1) for a in e.args]
                finally:
                    self._in_zip -= 1
                if not any(isinstance(p, Seq) and not _by_position(p.elem) for p in parts):
                    parts = [Broken('zip of lists none of which is a plain image of the inputs', False)]
                bad = next((p for p in parts if isinstance(p, Broken)), None)
                if bad is not None:
                    return bad
                if len({p.src for p in parts}) != 1:
                    return Broken('zip of lists of different sources', False)
                return Seq(parts[0].src, ast.Tuple(elts=[p.elem for p in parts], ctx=ast.Load()))
            if cn in ('map',) and len(e.args) == 2:
                s = self.seq(e.args[1], depth + 1)
                return s if isinstance(s, Broken) else \
                    Seq(s.src, ast.Call(func=e.args[0], args=[s.elem], keywords=[]))
            if cn in ('filter', 'itertools.islice', 'random.shuffle'):
                return Broken(f'{cn}() drops or re-orders elements', True)
            opened = self._record_method(e)
            if opened is not None:
                return self.seq(opened, depth + 1)
        opened = self._member_value(e)
        if opened is not None:
            return self.seq(opened, depth + 1)
        if isinstance(e, ast.List) and getattr(self, '_in_zip', 0) and len(e.elts) == 2 \
                and sum(isinstance(x, ast.Starred) for x in e.elts) == 1:
            # `[a, *S[:-1]]`, `[a, *accumulate(S[1:])]`, `[*S[1:], a]`: one element of S dropped, one put in - as long as
            # the list, but what stands at a position is not a function of the element of S there.  (Only as a partner
            # in a zip, which a list one longer - empty S - does not lengthen.)
            r = next(x.value for x in e.elts if isinstance(x, ast.Starred))
            while isinstance(r, ast.Call) and len(r.args) == 1 and not any(k.arg != 'func' for k in r.keywords) \
                    and (call_name(r) in TRANSPARENT or call_name(r).split('.')[-1] in ('accumulate', 'cumsum')):
                r = r.args[0]
            if isinstance(r, ast.Subscript) and isinstance(r.slice, ast.Slice) and r.slice.step is None \
                    and norm(r.slice) in (':-1', '1:'):
                s = self.seq(r.value, depth + 1)
                if isinstance(s, Broken):
                    return s
                return Seq(s.src, ast.Call(func=ast.Name(id=BY_POSITION, ctx=ast.Load()),
                                           args=[ast.Constant(value=_strip(e)[:80])], keywords=[]))
        if isinstance(e, ast.Subscript) and isinstance(e.slice, ast.Slice):
            sl = e.slice
            if sl.lower is None and sl.upper is None and sl.step is None:
                return self.seq(e.value, depth + 1)
            return Broken(f'the slice [{norm(sl)}] drops or re-orders elements', True)
        return Broken(f'unrecognised derivation {_strip(e)[:70]}', False)

    def accumulator(self, fn, base: str, depth: int):
        """`base = []` … `for x in S: …; base.append(E)` (one append on every completed iteration)"""
        inits, appends, other = [], [], None
        for x in walk_no_nested(fn.node):
            if isinstance(x, (ast.Assign, ast.AnnAssign)) and getattr(x, 'value', None) is not None:
                tg = x.targets if isinstance(x, ast.Assign) else [x.target]
                if any(_is_name(t, base) for t in tg):
                    inits.append(x)
                elif any(base in assigned_names(t) for t in tg):
                    other = 'bound by unpacking'
                elif any(isinstance(t, ast.Subscript) and _is_name(t.value, base) for t in tg):
                    other = 'element stores'
            elif isinstance(x, ast.AugAssign) and _is_name(x.target, base):
                if isinstance(x.op, ast.Add) and isinstance(x.value, ast.List) and len(x.value.elts) == 1:
                    appends.append((x, x.value.elts[0]))
                else:
                    other = 'augmented assignment'
            elif isinstance(x, ast.Call) and isinstance(x.func, ast.Attribute) and _is_name(x.func.value, base):
                a = x.func.attr
                if a == 'append' and len(x.args) == 1:
                    appends.append((stmt_of(x), x.args[0]))
                elif a in ('sort', 'reverse'):
                    return Broken(f'`{base}.{a}()` re-orders the list in place', True)
                elif a in MUTATING_METHODS:
                    other = f'.{a}()'
            elif isinstance(x, ast.Call) and call_name(x) in ('random.shuffle', 'shuffle') and x.args \
                    and _is_name(x.args[0], base):
                return Broken(f'`{call_name(x)}({base})` re-orders the list in place', True)
            elif isinstance(x, (ast.For, ast.AsyncFor)) and base in assigned_names(x.target):
                other = 'loop target'
            elif isinstance(x, ast.Delete) and any(base in {n.id for n in ast.walk(t) if isinstance(n, ast.Name)}
                                                   for t in x.targets):
                other = 'del'
        if other is not None:
            return Broken(f'`{base}` is also changed by {other}', False)
        if base in fn.params and not inits and not appends:
            return Broken(f'parameter `{base}` of {fn.qualname}', False)
        empty = len(inits) == 1 and ((isinstance(inits[0].value, ast.List) and not inits[0].value.elts)
                                     or (isinstance(inits[0].value, ast.Call) and call_name(inits[0].value) == 'list'
                                         and not inits[0].value.args))
        if len(inits) == 1 and not empty and not appends:
            # bound once to a value that is itself an image (comprehension, conversion, another list)
            try:
                hits = self.sym(fn, lambda n: n is inits[0]).hits
            except SymUndecided as ex:
                return Broken(str(ex), False)
            vals = {norm(h.ev(inits[0].value)): h.ev(inits[0].value) for h in hits}
            if len(vals) != 1:
                return Broken(f'the value bound to `{base}` differs between paths', False)
            s = self.seq(next(iter(vals.values())), depth + 1)
            if isinstance(s, Seq):
                self.lists.add(base)
            return s
        if not empty or len(appends) != 1:
            return Broken(f'`{base}` is not a list filled by one append per iteration', False)
        st, arg = appends[0]
        # the append is a body statement of the loop, or of `with` blocks that are: the body of a `with` runs exactly once
        # where the statement is reached (a manager that swallows exceptions - `suppress` - can leave it half-way)
        before, behind, at = [], [], st
        loop = parent(at)
        while isinstance(loop, (ast.With, ast.AsyncWith)) and any(at is b for b in loop.body) \
                and not any('suppress' in norm(it.context_expr).split('(')[0] for it in loop.items):
            k = next(i for i, b in enumerate(loop.body) if b is at)
            before, behind = loop.body[:k] + before, behind + loop.body[k + 1:]
            at, loop = loop, parent(loop)
        if not isinstance(loop, (ast.For, ast.AsyncFor)) or not any(at is b for b in loop.body):
            return Broken(f'the append to `{base}` is conditional', False)
        if any(isinstance(a, (ast.For, ast.AsyncFor, ast.While)) for a in ancestors(loop)) or loop.orelse:
            return Broken(f'the loop filling `{base}` is nested', False)
        # an iteration that is begun must reach the append: a `continue` behind it (guard clause for the rest of the body)
        # ends an iteration that has already appended; a `break` anywhere, or a `continue` above the append, can skip
        pos = next(i for i, b in enumerate(loop.body) if b is at)
        before, behind = loop.body[:pos] + before, [st] + behind + loop.body[pos + 1:]
        early = [x for b in before for x in _loop_exits(b)] + \
                [x for b in behind for x in _loop_exits(b) if isinstance(x, ast.Break)]
        if early:
            return Broken(f'the loop filling `{base}` can skip iterations (break / continue)', False)
        late_continue = any(True for b in behind for x in _loop_exits(b))
        try:
            hits = self.sym(fn, lambda n: n is st).hits
        except SymUndecided as ex:
            return Broken(str(ex), False)
        vals = {norm(h.ev(arg)): h.ev(arg) for h in hits}
        if len(vals) != 1:
            return Broken(f'the element appended to `{base}` differs between paths', False)
        s = self.seq(hits[0].ev(loop.iter), depth + 1)
        if isinstance(s, Broken):
            return s
        self.lists.add(base)
        val = next(iter(vals.values()))
        run = self._running_sum(fn, loop, val) if not late_continue else None
        if late_continue and isinstance(val, ast.BinOp) and self._running_sum(fn, loop, val) is not None:
            return Broken(f'the counter appended to `{base}` is advanced in a loop that can end an iteration early', False)
        if run is not None:
            val = ast.Call(func=ast.Name(id=RUNSUM, ctx=ast.Load()), args=[run], keywords=[])
        return Seq(s.src, self.simp(subst(val, bind_target(loop.target, s.elem, f'@{loop.lineno}'))))

    def _running_sum(self, fn, loop, val: ast.expr):
        """E when the appended value is `T + E` with T a counter that starts at 0 before the loop and is advanced by exactly
        that E once per iteration (so that the list is the running sum of E), else None"""
        if not (isinstance(val, ast.BinOp) and isinstance(val.op, ast.Add)):
            return None
        tag = f'@{loop.lineno}'
        for t, e in ((val.left, val.right), (val.right, val.left)):
            if not (isinstance(t, ast.Name) and t.id.endswith(tag)):
                continue
            T = _base_id(t.id)
            if any(isinstance(x, ast.Name) and _base_id(x.id) == T for x in ast.walk(e)):
                continue
            writes = [x for x in walk_no_nested(fn.node)
                      if (isinstance(x, (ast.Assign, ast.AnnAssign)) and getattr(x, 'value', None) is not None
                          and T in [n for tg in (x.targets if isinstance(x, ast.Assign) else [x.target]) for n in assigned_names(tg)])
                      or (isinstance(x, ast.AugAssign) and _is_name(x.target, T))
                      or (isinstance(x, (ast.For, ast.AsyncFor)) and T in assigned_names(x.target))]
            inside = [x for x in writes if any(x is b for b in loop.body)]
            outside = [x for x in writes if x not in inside]
            if len(inside) != 1 or len(outside) != 1 or len(writes) != 2:
                continue
            o = outside[0]
            zero = isinstance(o, (ast.Assign, ast.AnnAssign)) and isinstance(o.value, ast.Constant) and o.value.value == 0 \
                and not isinstance(o.value.value, bool) and o.lineno < loop.lineno \
                and not any(isinstance(a, (ast.For, ast.AsyncFor, ast.While, ast.If)) for a in ancestors(o))
            if not zero:
                continue
            # the value of T at the end of the iteration is the appended value
            st_in = inside[0]
            adv = None
            if isinstance(st_in, ast.AugAssign) and isinstance(st_in.op, ast.Add):
                adv = st_in.value
            elif isinstance(st_in, ast.Assign) and isinstance(st_in.value, ast.BinOp) and isinstance(st_in.value.op, ast.Add):
                l, r = st_in.value.left, st_in.value.right
                adv = r if _is_name(l, T) else (l if _is_name(r, T) else None)
            if adv is None:
                continue
            try:
                hs = self.sym(fn, lambda n, st_in=st_in: n is st_in).hits
            except SymUndecided:
                continue
            if hs and all(_strip(h.ev(adv)) == _strip(e) for h in hs):
                return e
        return None


def _loop_exits(s: ast.stmt):
    """the `break` / `continue` statements inside statement s that end an iteration of the loop s is a body statement of
    (those of loops nested in s belong to those loops; nested functions are not entered)"""
    out = []

    def go(x, inner):
        if isinstance(x, (ast.Break, ast.Continue)):
            if not inner:
                out.append(x)
            return
        if isinstance(x, (ast.FunctionDef, ast.AsyncFunctionDef, ast.ClassDef, ast.Lambda)):
            return
        if isinstance(x, (ast.For, ast.AsyncFor, ast.While)):
            for b in x.body:
                go(b, True)
            for b in x.orelse:
                go(b, inner)
            return
        for c in ast.iter_child_nodes(x):
            go(c, inner)
    go(s, False)
    return out


def _enclosing_loop(n: ast.AST):
    return next((a for a in ancestors(n) if isinstance(a, (ast.For, ast.AsyncFor))), None)


def _opened_path(e: ast.expr) -> ast.expr | None:
    """path of the store that e opens (`TrajectoryStore.open(base_file=P)`, `TrajectoryStore(P, …)`)"""
    if isinstance(e, ast.Call) and (call_name(e).endswith(('.open', '.append')) or call_name(e).endswith('TrajectoryStore')):
        return arg_or_kw(e, 0, 'base_file')
    return None


def _decide(ctx, rule, fn, what, s, want_elem=None, line=0):
    """obligation: `what` is an order-preserving image of the source (optionally with a given element)"""
    if isinstance(s, Broken):
        if not s.definite:
            ctx.undecided(rule, fn, what[:80], s.why)
        ctx.ob(rule, fn, what, False, s.why, line=line)
        return False
    ok = want_elem is None or canon(s.elem) == want_elem
    ctx.ob(rule, fn, what, ok, f'order-preserving image of {s.src}: {s!r}'[:200] if ok else
           f'the elements are `{canon(s.elem)}`, expected `{want_elem}`', line=line)
    return ok


# ------------------------------------------------------------------------------------------------ the rules

def run(ctx):
    prog = ctx.prog
    m = prog.module(STORE)
    rule_check_arguments(ctx, prog, m)
    mixed_refused = rule_refusals(ctx, prog, m)
    rule_merge(ctx, prog, m, mixed_refused)
    rule_open_merged(ctx, prog, m)
    # R3 locate arithmetic (symbolic paths; see rule_locate_arith)
    rule_locate_arith(ctx, prog, m)
    # R5 flight-identifier lookup across parts: the merged index offsets (shared with C08-R3)
    from .c08 import rule_offsets
    rule_index_walk(ctx, prog, m, 'C09-R5')
    rule_merged_index(ctx, prog, m, 'C09-R5')
    ctx.assumptions += ['netCDF4 resolves a negative record index against the (static) dimension length of a read-only file']


def _check_fn(m):
    """`_check_merge_arguments`, or None when the argument checks were merged into `merge` itself"""
    try:
        return m.func('TrajectoryStore._check_merge_arguments')
    except Exception:
        return None


def _list_param(fn):
    cands = [p for p in fn.params if 'stores' in p and 'pattern' not in p and 'range' not in p and 'output' not in p]
    return cands[0] if cands else None


def _pattern_expansion(v):
    """the range(...) call when v is a comprehension over a range (the expansion of the numbered pattern)"""
    if isinstance(v, (ast.ListComp, ast.GeneratorExp)) and len(v.generators) == 1 and not v.generators[0].ifs \
            and isinstance(v.generators[0].iter, ast.Call) and call_name(v.generators[0].iter) == 'range':
        return v.generators[0].iter
    return None


def _range_param(fn):
    cands = [p for p in fn.params if 'range' in p]
    return cands[0] if cands else None


def _pattern_param(fn):
    cands = [p for p in fn.params if 'pattern' in p]
    return cands[0] if cands else None


def _canon_bounds(e: ast.expr, P: str) -> ast.expr:
    """e with the spellings of the two bounds of the index-range parameter P (a pair of integers) made one:
    `tuple(P)[k]`, `list(P)[k]`, `P[k - 2]`, `int(P[k])`, `min(P)` is not a bound (it is the smaller one)"""
    class T(ast.NodeTransformer):
        def visit_Call(self, n):
            self.generic_visit(n)
            cn = call_name(n)
            if cn in ('tuple', 'list') and len(n.args) == 1 and not n.keywords and _is_name(n.args[0], P):
                return n.args[0]
            if cn in ('int', 'operator.index') and len(n.args) == 1 and not n.keywords \
                    and not any(isinstance(x, ast.BinOp) and not isinstance(x.op, (ast.Add, ast.Sub, ast.Mult))
                                for x in ast.walk(n.args[0])):
                return n.args[0]             # the bounds are integers: int() of an integer expression is the expression
            return n

        def visit_Subscript(self, n):
            self.generic_visit(n)
            if _is_name(n.value, P):
                k = n.slice
                if isinstance(k, ast.UnaryOp) and isinstance(k.op, ast.USub) and isinstance(k.operand, ast.Constant):
                    k = ast.Constant(value=-k.operand.value)
                if isinstance(k, ast.Constant) and isinstance(k.value, int) and not isinstance(k.value, bool) and -2 <= k.value < 0:
                    return ast.Subscript(value=n.value, slice=ast.Constant(value=k.value + 2), ctx=ast.Load())
            return n
    return T().visit(copy.deepcopy(e))


def _beta(e: ast.expr) -> ast.expr:
    """`(lambda x: B)(a)` -> B[x := a] (plain positional parameters only)"""
    class T(ast.NodeTransformer):
        def visit_Call(self, n):
            self.generic_visit(n)
            f = n.func
            if isinstance(f, ast.Lambda) and not n.keywords and not any(isinstance(a, ast.Starred) for a in n.args):
                a = f.args
                if not (a.vararg or a.kwarg or a.kwonlyargs or a.defaults) and len(a.posonlyargs + a.args) == len(n.args):
                    return self.visit(subst(f.body, {p.arg: x for p, x in zip(a.posonlyargs + a.args, n.args)}))
            return n
    return T().visit(copy.deepcopy(e))


def expansion_verdict(fn, rng: ast.Call, elem: ast.expr):
    """The list `[elem(i) for i in <rng>]` (elem over ELEM, rng a call of range) as the expansion of the numbered
    pattern: every element is the pattern formatted with one index, and the indexes are first, first + 1, ..., last of
    the index-range parameter, whatever the spelling of the arithmetic (`range(first, last + 1)` with the index itself,
    `range(last - first + 1)` with `first + i`, a count-down with `last - i`, ...).  Decided by exact linear normal
    forms of (index used for the first element) - first, (index of element k + 1) - (index of element k) and (index
    used for the last element) - last.
    -> (True, text) | (False, what is wrong) | (None, why it is not decided)"""
    P, pat = _range_param(fn), _pattern_param(fn)
    if P is None or pat is None:
        return None, 'no index-range / pattern parameter'
    if rng.keywords or not 1 <= len(rng.args) <= 3 or any(isinstance(a, ast.Starred) for a in rng.args):
        return None, 'pattern expansion range not recognised'
    elem = _beta(elem)
    fmts = [x for x in ast.walk(elem) if isinstance(x, ast.Call) and isinstance(x.func, ast.Attribute) and x.func.attr == 'format']
    if len(fmts) != 1 or any(isinstance(x, ast.Lambda) for x in ast.walk(elem)):
        return None, 'the numbered pattern is not expanded by one call of .format(index=...)'
    f = fmts[0]
    if f.args or any(k.arg is None for k in f.keywords) or kwarg(f, 'index') is None:
        return None, 'the numbered pattern is not expanded by one call of .format(index=...)'
    if canon(f.func.value) != pat or canon(elem) != canon(f):
        return None, f'the elements `{canon(elem)[:80]}` are more than the pattern parameter formatted with an index'
    E = kwarg(f, 'index')
    if not any(_is_name(x, ELEM) for x in ast.walk(E)):
        return False, f'every element is formatted with the same index `{_strip(E)}`, whatever its position'
    a = ast.Constant(value=0) if len(rng.args) == 1 else rng.args[0]
    b = rng.args[0] if len(rng.args) == 1 else rng.args[1]
    s = rng.args[2] if len(rng.args) == 3 else ast.Constant(value=1)
    el = _elem()

    def at(x):
        return _canon_bounds(subst(E, {ELEM: x}), P)

    def nf(x):
        return _nf(_canon_bounds(x, P))
    lo = ast.Subscript(value=ast.Name(id=P, ctx=ast.Load()), slice=ast.Constant(value=0), ctx=ast.Load())
    hi = ast.Subscript(value=ast.Name(id=P, ctx=ast.Load()), slice=ast.Constant(value=1), ctx=ast.Load())
    n_s = nf(s)
    n_step = (nf(at(ast.BinOp(left=el, op=ast.Add(), right=s))), nf(at(el)))
    n_first = (nf(at(a)), nf(lo))
    n_last = (nf(at(ast.BinOp(left=b, op=ast.Sub(), right=s))), nf(hi))
    if n_s is None or any(x is None for pr in (n_step, n_first, n_last) for x in pr):
        return None, 'index arithmetic of the pattern expansion not recognised'
    d_step, d_first, d_last = n_step[0] - n_step[1], n_first[0] - n_first[1], n_last[0] - n_last[1]
    if not n_s.is_const() or not d_step.is_const():
        return None, 'the indexes of the pattern expansion do not advance by a constant'
    def show(x):
        import re
        text = str(x) if not isinstance(x, ast.AST) else _strip(x)
        text = re.sub(r'(?<![\w.])1\*', '', text).replace('+ -', '- ').replace(ELEM, 'i')
        return text
    shown = f'`index={show(_canon_bounds(E, P))}` for i in `{show(_canon_bounds(rng, P))}`'
    if d_step.const() != 1:
        k = d_step.const()
        how = 'in descending order' if k < 0 else ('the same index for every element' if k == 0 else f'in steps of {k}')
        return False, f'the indexes used ({shown}) run {how}, not first, first + 1, ..., last'
    if abs(n_s.const()) != 1:
        return None, 'pattern expansion range not recognised'
    bounds = {f'{P}[0]', f'{P}[1]'}
    bad = []
    for d, got, name, want in ((d_first, at(a), 'first', lo), (d_last, at(ast.BinOp(left=b, op=ast.Sub(), right=s)), 'last', hi)):
        if d.is_zero():
            continue
        if not d.atoms() <= bounds:
            return None, f'cannot compare the {name} index used (`{show(got)}`) with `{_strip(want)}`'
        bad.append(f'the {name} index used is `{show(_nf(got))}`, not `{_strip(want)}`' + (f' (off by {d.const()})' if d.is_const() else ''))
    if bad:
        return False, f'the numbered pattern is formatted with {shown}: ' + ' and '.join(bad) + \
            f'; the stores merged are not the stores {P}[0] .. {P}[1] (both included) that the caller named'
    return True, f'{shown}: the indexes {P}[0], {P}[0] + 1, ..., {P}[1]'


def rule_check_arguments(ctx, prog, m):
    """R1a: the list merge works on is the caller's list, or the inclusive ascending expansion of the numbered pattern:
    what `_check_merge_arguments` returns - or, when the checks live in `merge` itself, what merge binds to its list
    parameter"""
    chk = _check_fn(m)
    fn = chk if chk is not None else m.func('TrajectoryStore.merge')
    lst = _list_param(fn) or (fn.params[1] if len(fn.params) > 1 else None)
    ranges: dict[str, ast.Call] = {}

    def root(e):
        if _is_name(e, lst):
            return 'the input list'
        if isinstance(e, ast.Call) and call_name(e) == 'range':
            key = f'the indexes {_strip(e)}'
            ranges.setdefault(key, e)
            return key
        return None
    prov = Prov(ctx, prog, m, fn, root)
    try:
        if chk is not None:
            sym = prov.sym(chk)
            vals = [(v, stmt) for st, v, stmt in sym.returns if stmt is not None]
        else:
            hits = prov.sym(fn, lambda n: isinstance(n, (ast.Assign, ast.AnnAssign)) and getattr(n, 'value', None) is not None
                            and any(_is_name(t, lst) for t in (n.targets if isinstance(n, ast.Assign) else [n.target]))).hits
            vals = [(h.ev(h.node.value), h.node) for h in hits]
    except SymUndecided as ex:
        ctx.undecided('C09-R1', fn, 'returns', str(ex))
    if chk is not None:
        ctx.floor('C09-R1', len(vals), 1, 'returns of _check_merge_arguments')
    seen = set()
    n_exp = 0
    for v, stmt in vals:
        if (id(stmt), norm(v)) in seen:
            continue
        seen.add((id(stmt), norm(v)))
        s = prov.seq(v)
        if isinstance(s, Broken) and not s.definite:
            ctx.undecided('C09-R1', fn, _strip(v)[:80], s.why)
        if isinstance(s, Seq) and s.src in ranges:
            n_exp += 1
            ok, text = expansion_verdict(fn, ranges[s.src], s.elem)
            if ok is None:
                ctx.undecided('C09-R1', fn, _strip(ranges[s.src]), text)
            ctx.ob('C09-R1', fn, 'numbered pattern expands to the inclusive ascending range', ok,
                   text[:200] if ok else 'pattern expansion is not range(first, last + 1) in ascending order: ' + text,
                   line=stmt.lineno)
            continue
        ok = isinstance(s, Seq) and canon(s.elem) == ELEM
        what = 'return' if chk is not None else f'{lst} ='
        ctx.ob('C09-R1', fn, f'{what} {_strip(v)[:80]}', ok,
               'the input list' if ok else 'something other than the input list in the order given: '
               + (s.why if isinstance(s, Broken) else f'elements {canon(s.elem)}'), line=stmt.lineno, nontrivial=not ok)
    if _pattern_param(fn) is not None:
        ctx.floor('C09-R1', n_exp, 1, 'expansions of the numbered pattern')
    for x in walk_no_nested(fn.node):
        if isinstance(x, ast.Call) and isinstance(x.func, ast.Attribute) and x.func.attr in ('sort', 'reverse') \
                and _is_name(x.func.value, lst):
            ctx.ob('C09-R1', fn, norm(x), False, 'the input list is reordered in place', line=x.lineno)


def _merge_prov(ctx, prog, m):
    mg = m.func('TrajectoryStore.merge')
    chk = _check_fn(m)
    lst = _list_param(mg)

    def root(e):
        if chk is not None:
            return 'the checked input list' if isinstance(e, ast.Call) and call_name(e).split('.')[-1] == chk.name else None
        # the checks live in merge: the list is merge's own parameter or the expansion of the numbered pattern (R1a)
        if _is_name(e, lst) or _pattern_expansion(e) is not None:
            return 'the checked input list'
        return None
    return mg, Prov(ctx, prog, m, mg, root, opaque={chk.name} if chk is not None else (),
                    enter=lambda callee: _writes_stores_entry(prog, callee))


def _writes_stores_entry(prog, callee, depth: int = 0) -> bool:
    """the helper builds the metadata document: it holds a construct with a `stores` entry, or hands on to a helper that
    does"""
    if any(_stores_entry(x) is not None for x in walk_no_nested(callee.node)):
        return True
    if depth >= 2:
        return False
    for c in walk_no_nested(callee.node):
        if isinstance(c, ast.Call):
            try:
                sub = resolve_call(prog, callee, c)
            except Exception:
                sub = None
            if sub is not None and sub is not callee and hasattr(sub, 'node') and _writes_stores_entry(prog, sub, depth + 1):
                return True
    return False


def _stores_entry(n):
    """the value written as the `stores` entry of the metadata document by the construct n, or None"""
    if isinstance(n, ast.Call) and call_name(n) == 'dict' and kwarg(n, 'stores') is not None:
        return kwarg(n, 'stores')
    if isinstance(n, ast.Dict):
        for k, v in zip(n.keys, n.values):
            if isinstance(k, ast.Constant) and k.value == 'stores':
                return v
    if isinstance(n, ast.Assign) and any(isinstance(t, ast.Subscript) and isinstance(t.slice, ast.Constant)
                                         and t.slice.value == 'stores' for t in n.targets):
        return n.value
    return None


def rule_merge(ctx, prog, m, mixed_refused=False):
    """R1b, R4, R6: the metadata document, the relocation and the index builder in merge"""
    recorded = merge_metadata(ctx, prog, m, 'C09-R1', 'C09-R4')
    merge_relocation(ctx, prog, m, recorded, 'C09-R1', 'C09-R4')
    merge_builder(ctx, prog, m, mixed_refused, 'C09-R1', 'C09-R6')
    merge_in_place(ctx, prog, m, 'C09-R1')


def merge_metadata(ctx, prog, m, r_order, r_entry=None):
    """the `stores` entry of the metadata document is an order-preserving image of the checked input list [r_order];
    each entry is (name under which the input is moved, length of the input) [r_entry].  -> the recorded name, over
    ELEM (None when the entry is not an image at all)"""
    mg, prov = _merge_prov(ctx, prog, m)
    try:
        docs = prov.sym(mg, lambda n: _stores_entry(n) is not None).hits
    except SymUndecided as ex:
        ctx.undecided(r_order, mg, 'metadata document', str(ex))
    ctx.floor(r_entry or r_order, len(docs), 1, 'metadata documents with a `stores` entry written by merge')
    recorded = None
    seen_docs = set()
    for h in docs:
        val = h.ev(_stores_entry(h.node))
        if (id(h.node), norm(val)) in seen_docs:
            continue
        seen_docs.add((id(h.node), norm(val)))
        s = prov.seq(val)
        # (a document built by a helper kept in another file is reported where it is built)
        where = mg if getattr(h.sym.fi, 'file', mg.file) == mg.file else h.sym.fi
        if isinstance(s, Broken) and s.definite:
            ctx.ob(r_order, where, 'metadata `stores` lists the inputs in the order given', False,
                   f'{s.why}: the `stores` entry of metadata.json is not the inputs in the order in which they were given. '
                   f'_open_merged_store lays the files out (and builds the cumulative size table) in metadata order, the merged '
                   f'flight-identifier index carries offsets in input order: positions and identifiers no longer belong together',
                   line=h.node.lineno)
            continue
        if not _decide(ctx, r_order, where, 'metadata `stores` lists the inputs in the order given', s, line=h.node.lineno):
            continue
        el = s.elem
        if isinstance(el, ast.Call) and prov.is_named_tuple(el):
            # a NamedTuple is written to JSON as the list of its fields, in declaration order
            f = prov._record_fields(el)
            if f is not None:
                el = ast.Tuple(elts=list(f.values()), ctx=ast.Load())
        ok = isinstance(el, (ast.Tuple, ast.List)) and len(el.elts) == 2
        name_ok = len_ok = False
        if ok:
            recorded = el.elts[0]
            name_ok = canon(el.elts[0]) == f'{ELEM}.name'
            ln = el.elts[1]
            opened = _opened_path(ln.args[0]) if isinstance(ln, ast.Call) and call_name(ln) == 'len' and len(ln.args) == 1 else None
            len_ok = opened is not None and canon(opened) == ELEM
        if r_entry is not None:
            ctx.ob(r_entry, where, 'metadata entry per input = (file name, length of that input)', ok and name_ok and len_ok,
                   f'records {_strip(el)[:120]} per input in loop order' if ok and name_ok and len_ok else
                   f'metadata entry is not (name of the input, length of the input): `{_strip(el)[:120]}`', line=h.node.lineno)
    return recorded


def merge_relocation(ctx, prog, m, recorded, r_order, r_entry):
    mg, prov = _merge_prov(ctx, prog, m)
    out_param = mg.params[0]

    def is_move(n):
        return isinstance(n, ast.Call) and (call_name(n) in ('os.rename', 'os.replace', 'shutil.move', 'os.renames')
                                            or (isinstance(n.func, ast.Attribute) and n.func.attr in ('rename', 'replace')
                                                and len(n.args) == 1 and not call_name(n).startswith(('os.', 'str.'))))

    try:
        moves = prov.sym(mg, is_move).hits
    except SymUndecided as ex:
        ctx.undecided(r_order, mg, 'relocation', str(ex))
    ctx.floor(r_order, len(moves), 1, 'relocation calls (rename / replace / move) in merge')
    seen = set()
    for h in moves:
        c = h.node
        if id(c) in seen:
            continue
        seen.add(id(c))
        loop = _enclosing_loop(c)
        if loop is None:
            ctx.undecided(r_order, mg, norm(c)[:80], 'relocation outside a loop over the inputs')
        it = h.ev(loop.iter)
        while isinstance(it, ast.Call) and call_name(it) in ('sorted', 'reversed', 'set', 'frozenset', 'list', 'tuple') and it.args:
            it = it.args[0]      # the order in which the files are moved does not matter
        s = prov.seq(it)
        if isinstance(s, Broken):
            if not s.definite:
                ctx.undecided(r_order, mg, _strip(it)[:80], s.why)
            ctx.ob(r_order, mg, 'relocation visits every input', False,
                   f'the relocation loop visits the inputs in a different subset: {s.why}', line=loop.lineno)
            continue
        ctx.ob(r_order, mg, 'relocation visits every input', True, f'loop over {s!r}'[:160], line=loop.lineno)
        b = bind_target(loop.target, s.elem, f'@{loop.lineno}')
        if call_name(c) in ('os.rename', 'os.replace', 'shutil.move', 'os.renames'):
            a_src, a_dst = arg_or_kw(c, 0, 'src'), arg_or_kw(c, 1, 'dst')
        else:
            a_src, a_dst = c.func.value, c.args[0]
        src = canon(prov.simp(subst(h.ev(a_src), b)))
        dst = prov.simp(subst(h.ev(a_dst), b))
        if recorded is None:
            continue             # the metadata entry is not an image of the inputs: reported there
        want = f'{out_param} / {canon(recorded)}'
        ok = src == ELEM and canon(dst) == want
        ctx.ob(r_entry, mg, 'input moved to <output>/<the name recorded for it>', ok,
               f'moves {src} to {canon(dst)}' if ok else
               f'the relocation moves `{src}` to `{canon(dst)}`; the metadata records `{canon(recorded)}` '
               f'inside `{out_param}`: the relocation target differs from the name recorded in the metadata', line=c.lineno)


def _is_store_open(n) -> bool:
    """`TrajectoryStore.open(base_file=P)` / `TrajectoryStore(P, …)` / `cls.open(P)` - not the built-in open()"""
    if not isinstance(n, ast.Call):
        return False
    cn = call_name(n)
    last = cn.split('.')[-1]
    if last == 'TrajectoryStore':
        return True
    return last in ('open', 'append') and '.' in cn and cn.split('.')[-2] in ('TrajectoryStore', 'cls') \
        and arg_or_kw(n, 0, 'base_file') is not None


def _bind_call(callee, c: ast.Call) -> dict[str, ast.expr] | None:
    """parameter -> argument expression (defaults included) of a plain call of a static / class method or function"""
    a = callee.node.args
    if a.vararg or a.kwarg or any(isinstance(x, ast.Starred) for x in c.args) or any(k.arg is None for k in c.keywords):
        return None
    pos = [x.arg for x in a.posonlyargs + a.args]
    decs = [d.split('.')[-1] for d in callee.decorators()]
    if pos and pos[0] in ('self', 'cls') and 'staticmethod' not in decs:
        pos = pos[1:]            # (a method that was moved to module level keeps its class in the program model)
    names = pos + [x.arg for x in a.kwonlyargs]
    if len(c.args) > len(pos):
        return None
    out = dict(zip(pos, c.args))
    for k in c.keywords:
        if k.arg in out or k.arg not in names:
            return None
        out[k.arg] = k.value
    for p in names:
        if p not in out:
            d = _param_default_of(callee, p)
            if d is None:
                return None
            out[p] = d
    return out


def _param_default_of(fn, name: str):
    a = fn.node.args
    pos = a.posonlyargs + a.args
    for p, d in zip(reversed(pos), reversed(a.defaults)):
        if p.arg == name:
            return d
    for p, d in zip(a.kwonlyargs, a.kw_defaults):
        if p.arg == name and d is not None:
            return d
    return None


def builder_walk(ctx, prog, m, rule):
    """Which stores does the merged-index builder walk, in which order?  For every place where the builder opens a
    store: the loop (or comprehension) it sits in is followed back to a parameter of the builder.
    -> [(open call, Seq over `parameter p` | Broken, path of the opened store over ELEM and the builder's parameters,
         line)]"""
    b = m.func('TrajectoryStore._create_merged_store_index')
    params = list(b.params)

    def root(e):
        return f'parameter {e.id}' if isinstance(e, ast.Name) and e.id in params else None
    prov = Prov(ctx, prog, m, b, root)
    try:
        hits = prov.sym(b, _is_store_open).hits
    except SymUndecided as ex:
        ctx.undecided(rule, b, 'stores opened by the index builder', str(ex))
    out, seen = [], set()
    for h in hits:
        c = h.node
        if id(c) in seen:
            continue
        seen.add(id(c))
        comp = next((x for x in ancestors(c) if isinstance(x, (ast.ListComp, ast.GeneratorExp, ast.SetComp, ast.DictComp))
                     or isinstance(x, ast.stmt)), None)
        path = arg_or_kw(c, 0, 'base_file')
        if isinstance(comp, (ast.ListComp, ast.GeneratorExp, ast.SetComp, ast.DictComp)):
            if len(comp.generators) != 1:
                ctx.undecided(rule, b, norm(comp)[:80], 'stores opened in a nested comprehension')
            g = comp.generators[0]
            s = prov.seq(h.ev(g.iter))
            if isinstance(comp, (ast.SetComp, ast.DictComp)) and not isinstance(s, Broken):
                s = Broken('the stores are collected in a set / dict', isinstance(comp, ast.SetComp))
            if g.ifs and not isinstance(s, Broken):
                s = Broken('the comprehension filters inputs out', True)
            bind = {} if isinstance(s, Broken) else bind_target(g.target, s.elem)
            opened = prov.simp(subst(h.ev(path), bind)) if path is not None else None
            out.append((c, s, opened, c.lineno))
            continue
        loop = _enclosing_loop(c)
        if loop is None:
            ctx.undecided(rule, b, norm(c)[:80], 'the index builder opens a store outside any loop over the inputs')
        s = prov.seq(h.ev(loop.iter))
        bind = {} if isinstance(s, Broken) else bind_target(loop.target, s.elem, f'@{loop.lineno}')
        opened = prov.simp(subst(h.ev(path), bind)) if path is not None else None
        out.append((c, s, opened, loop.lineno))
    return b, out


def _builder_calls(ctx, prog, m, rule):
    """[(call of the index builder in merge, symbolic hit)]"""
    mg, prov = _merge_prov(ctx, prog, m)
    builder = m.func('TrajectoryStore._create_merged_store_index')
    try:
        builds = prov.sym(mg, lambda n: isinstance(n, ast.Call) and call_name(n).split('.')[-1] == builder.name).hits
    except SymUndecided as ex:
        ctx.undecided(rule, mg, 'index builder', str(ex))
    out, done = [], set()
    for h in builds:
        if id(h.node) not in done:
            done.add(id(h.node))
            out.append(h)
    return mg, prov, builder, out


def rule_index_walk(ctx, prog, m, rule):
    """The sequence of stores the merged-index builder walks (and accumulates its offsets over) is an order-preserving
    image of the checked input list of merge: builder-side provenance (loop -> parameter) composed with the call in
    merge (argument -> checked input list).  A directory listing, sorted(), a set are definite violations: the offsets
    of the merged index would follow that order while metadata.json, __len__ and __getitem__ keep the caller's."""
    b, walk = builder_walk(ctx, prog, m, rule)
    ctx.floor(rule, len(walk), 1, 'places where the merged-index builder opens a constituent store')
    mg, mprov, builder, calls = _builder_calls(ctx, prog, m, rule)
    for c, s, opened, line in walk:
        if isinstance(s, Broken):
            if not s.definite:
                ctx.undecided(rule, b, norm(c)[:80], f'order in which the index builder visits the stores: {s.why}')
            ctx.ob(rule, b, 'merged index walks the inputs in the order given', False,
                   f'{s.why}: the merged index is built by walking the constituent stores in an order that is not the order '
                   f'in which the inputs were given to merge. The per-store offsets of the merged index follow that walk, '
                   f'while metadata.json, __len__ and __getitem__ keep the caller\'s order, so look-ups by flight identifier '
                   f'return trajectories of other parts', line=line)
            continue
        pname = s.src.split(' ', 1)[1]
        if opened is None or not any(isinstance(x, ast.Name) and x.id == ELEM for x in ast.walk(opened)):
            ctx.ob(rule, b, 'merged index walks the inputs in the order given', False,
                   f'the store opened at each step (`{_strip(opened) if opened is not None else "?"}`) is not made from the '
                   f'input of that step', line=line)
            continue
        for h in calls:
            bound = _bind_call(builder, h.node)
            if bound is None or pname not in bound:
                ctx.undecided(rule, mg, norm(h.node)[:80], f'cannot tell the argument for `{pname}` of the index builder')
            ms = mprov.seq(h.ev(bound[pname]))
            if isinstance(ms, Broken):
                if not ms.definite:
                    ctx.undecided(rule, mg, _strip(bound[pname])[:80], ms.why)
                ctx.ob(rule, mg, 'merged index walks the inputs in the order given', False,
                       f'{ms.why}: the list handed to the merged-index builder is not the inputs in the order in which they '
                       f'were given, so the per-store offsets of the merged index do not match the file order of the merged '
                       f'store', line=h.node.lineno)
                continue
            full = subst(subst(opened, {ELEM: ast.Name(id='__step__', ctx=ast.Load())}),
                         {k: h.ev(v) for k, v in bound.items() if k != pname})
            full = mprov.simp(subst(full, {'__step__': ms.elem}))
            ok = any(isinstance(x, ast.Name) and x.id == ELEM for x in ast.walk(full))
            ctx.ob(rule, b, 'merged index walks the inputs in the order given', ok,
                   f'step k opens {canon(full)[:100]} with {ELEM} = input k of {ms.src}' if ok else
                   f'the store opened at step k (`{canon(full)[:100]}`) is not made from input k', line=line)
    return walk


def merge_builder(ctx, prog, m, mixed_refused, r_order, r_cond):
    """which list the merged-index builder receives [r_order], and under which condition it runs [r_cond]"""
    mg, prov, builder, builds = _builder_calls(ctx, prog, m, r_cond)
    ctx.floor(r_cond, len(builds), 1, 'merged-index creation sites in merge')
    _, walk = builder_walk(ctx, prog, m, r_order)
    srcs = sorted({s.src.split(' ', 1)[1] for _, s, _, _ in walk if isinstance(s, Seq)})
    for h in builds:
        c = h.node
        bound = _bind_call(builder, c)
        for pname in srcs:
            if bound is None or pname not in bound:
                ctx.undecided(r_order, mg, norm(c)[:80], 'cannot tell the list argument of the index builder')
            _decide(ctx, r_order, mg, 'index builder receives the inputs in the order given', prov.seq(h.ev(bound[pname])),
                    line=c.lineno)
    # the condition under which the builder runs: by interpretation of merge over short uniform input sequences
    verdict, text, line = refusal_tables(prog, m)['built']
    if verdict is None:
        ctx.undecided(r_cond, mg, 'merged index built exactly when every input is identified', f'truth table not decided - {text}')
    ctx.ob(r_cond, mg, 'merged index built exactly when every input is identified', verdict,
           text if verdict else f'{text}: the merged index is not built for every merge of identified stores', line=line)


def merge_in_place(ctx, prog, m, rule):
    """nothing re-orders the lists in place"""
    mg, prov = _merge_prov(ctx, prog, m)
    try:
        prov.sym(mg, lambda n: _stores_entry(n) is not None)
    except SymUndecided:
        pass
    for x in walk_no_nested(mg.node):
        if isinstance(x, ast.Call) and isinstance(x.func, ast.Attribute) and x.func.attr in ('sort', 'reverse') \
                and isinstance(x.func.value, ast.Name):
            nm = x.func.value.id
            s = prov.accumulator(mg, nm, 0)
            holds = nm in prov.lists or (isinstance(s, Broken) and s.definite) \
                or any(isinstance(st, ast.Assign) and any(_is_name(t, nm) for t in st.targets)
                       and prov.root(st.value) is not None for st in walk_no_nested(mg.node))
            if holds:
                ctx.ob(rule, mg, norm(x), False, 'list reordered in place', line=x.lineno)


def rule_open_merged(ctx, prog, m):
    """R1c: everything _open_merged_store hands to NcFiles follows metadata['stores']"""
    om = m.func('TrajectoryStore._open_merged_store')

    def root(e):
        if isinstance(e, ast.Subscript) and isinstance(e.slice, ast.Constant) and e.slice.value == 'stores':
            return "metadata['stores']"
        if isinstance(e, ast.Call) and isinstance(e.func, ast.Attribute) and e.func.attr == 'get' and e.args \
                and isinstance(e.args[0], ast.Constant) and e.args[0].value == 'stores':
            return "metadata['stores']"
        return None
    prov = Prov(ctx, prog, m, om, root)

    def is_files(n):
        if not isinstance(n, ast.Call):
            return False
        k = resolve_class_call(prog, om, n)
        return k is not None and k.name.split('.')[-1] == 'NcFiles'

    try:
        hits = prov.sym(om, is_files).hits
    except SymUndecided as ex:
        ctx.undecided('C09-R1', om, 'NcFiles(...)', str(ex))
    sites = {id(h.node) for h in hits}
    if len(sites) != 1:
        ctx.undecided('C09-R1', om, 'NcFiles(...)', f'{len(sites)} construction sites')
    h = hits[0]
    c = h.node
    images = {}
    for kw in ('path', 'dataset', 'traj_dim', 'traj_var'):
        v = kwarg(c, kw)
        if v is None:
            ctx.undecided('C09-R1', om, kw, 'not passed by keyword')
        s = prov.seq(h.ev(v))
        images[kw] = s
        _decide(ctx, 'C09-R1', om, f'{kw} follows metadata order', s, line=v.lineno)
    # groups: every list of groups follows the datasets
    gv = kwarg(c, 'groups')
    if gv is None:
        ctx.undecided('C09-R1', om, 'groups', 'not passed by keyword')
    g = h.ev(gv)
    lists = []
    if isinstance(g, ast.DictComp):
        lists = [g.value]
    elif isinstance(g, ast.Dict):
        lists = list(g.values)
    elif isinstance(g, ast.Name):
        base, fn = _base_id(g.id), prov.origin.get(g.id, om)
        for x in walk_no_nested(fn.node):
            if isinstance(x, ast.Assign) and any(isinstance(t, ast.Subscript) and _is_name(t.value, base) for t in x.targets):
                try:
                    for hh in prov.sym(fn, lambda n, x=x: n is x).hits[:1]:
                        lists.append(hh.ev(x.value))
                except SymUndecided as ex:
                    ctx.undecided('C09-R1', om, 'groups', str(ex))
            elif isinstance(x, (ast.Assign, ast.AnnAssign)) and getattr(x, 'value', None) is not None \
                    and any(_is_name(t, base) for t in (x.targets if isinstance(x, ast.Assign) else [x.target])) \
                    and isinstance(x.value, ast.DictComp):
                lists.append(x.value.value)
    if not lists:
        ctx.undecided('C09-R1', om, f'groups = {_strip(g)[:60]}', 'cannot tell how the group lists are built')
    for lv in lists:
        _decide(ctx, 'C09-R1', om, f'groups[...] = {_strip(lv)[:50]} follows metadata order', prov.seq(lv),
                line=getattr(lv, 'lineno', c.lineno))
    # size table: running sum of the lengths of exactly the stored dimensions
    sz = kwarg(c, 'size_index')
    if sz is None:
        ctx.undecided('C09-R1', om, 'size_index', 'not passed by keyword')
    e = h.ev(sz)
    while isinstance(e, ast.Call):
        if call_name(e) in ('list', 'tuple', 'np.asarray', 'np.array', 'numpy.asarray', 'numpy.array') and len(e.args) == 1:
            e = e.args[0]                # conversions keep the values and their order
        elif isinstance(e.func, ast.Attribute) and e.func.attr in ('tolist', 'copy') and not e.args:
            e = e.func.value
        else:
            break
    running = isinstance(e, ast.Call) and call_name(e).split('.')[-1] in ('accumulate', 'cumsum') and len(e.args) == 1 \
        and not any(k.arg in ('func', 'initial') for k in e.keywords)
    if running:
        s = prov.seq(e.args[0])
        per = s.elem if isinstance(s, Seq) else None
    else:
        # a hand-written running sum: `total = 0; for d in dims: total += len(d); table.append(total)`
        s = prov.seq(e)
        per = None
        if isinstance(s, Seq) and isinstance(s.elem, ast.Call) and call_name(s.elem) == RUNSUM:
            per, running = s.elem.args[0], True
    if not running:
        if isinstance(s, Broken) and not s.definite:
            ctx.undecided('C09-R1', om, _strip(e)[:80], 'size table is not a recognised running sum')
        if isinstance(s, Seq) and not (isinstance(s.elem, ast.Call) and call_name(s.elem) == 'len'):
            ctx.undecided('C09-R1', om, _strip(s.elem)[:80], 'size table is not a recognised running sum')
        ctx.ob('C09-R1', om, 'size table = running sum of per-file lengths', False,
               'size table is not the cumulative sum of the file lengths'
               + (f' ({s.why})' if isinstance(s, Broken) else ': it holds the length of each file, not the running total'),
               line=sz.lineno)
        return
    if _decide(ctx, 'C09-R1', om, 'size_index follows metadata order', s, line=sz.lineno):
        dim = images.get('traj_dim')
        ok = isinstance(dim, Seq) and isinstance(per, ast.Call) and call_name(per) == 'len' \
            and len(per.args) == 1 and norm(per.args[0]) == norm(dim.elem)
        ctx.ob('C09-R1', om, 'size table = running sum of per-file lengths', ok,
               f'running sum of {_strip(per)[:80]} per file' if ok else
               f'the size table sums `{_strip(per)[:80]}`, not the length of the trajectory dimension stored for the '
               f'same file: size table is not the cumulative sum of the file lengths', line=sz.lineno)


def rule_refusals(ctx, prog, m):
    """R2: differing field sets and mixed identifier use are refused - decided by interpreting merge over every short
    sequence of inputs (`refusal_tables`), not by the spelling of the tests"""
    mg = m.func('TrajectoryStore.merge')
    verdict, text, line = refusal_tables(prog, m)['fieldsets']
    if verdict is None:
        ctx.undecided('C09-R2', mg, 'refusal: field sets differ', f'truth table not decided - {text}')
    ctx.ob('C09-R2', mg, 'refusal: field sets differ', verdict,
           text, line=line)
    return rule_mixed_refused(ctx, prog, m, 'C09-R2')


def rule_mixed_refused(ctx, prog, m, rule: str) -> bool:
    """every mixed list of identified / unidentified inputs reaches a raise of merge: decided by interpreting merge for
    every sequence of up to three inputs (see `TruthTable`), whatever the spelling of the test (aggregate all/any,
    per-input comparison with a reference, counters, sets, fail-fast inside the loop, helper)"""
    mg = m.func('TrajectoryStore.merge')
    verdict, text, line = refusal_tables(prog, m)['mixed']
    if verdict is None:
        ctx.undecided(rule, mg, 'refusal: mixed identifier use', f'truth table not decided - {text}')
    ctx.ob(rule, mg, 'refusal: mixed identifier use', verdict, text, line=line, nontrivial=True)
    return bool(verdict)


def record_locate_paths(ctx, rule: str, prog, m):
    """`c07.locate_paths` (paths of _load_trajectory to every read of a record), also through a query method of the
    file-set object that hands (file, record index) back in a plain record, a NamedTuple or a tuple, or None for "no
    such trajectory" (`_Sym`)"""
    load = m.func('TrajectoryStore._load_trajectory')
    rd = m.func('TrajectoryStore._read_from_nc_var')
    pn = rd.params[1:] if rd.params and rd.params[0] == 'self' else rd.params

    def is_read(n):
        return isinstance(n, ast.Call) and isinstance(n.func, ast.Attribute) and n.func.attr == rd.name

    try:
        sym = _Sym(prog, load).run(is_read)
    except SymUndecided as e:
        ctx.undecided(rule, load, 'locate paths', str(e))
    out = []
    for h in sym.hits:
        a_var, a_idx = arg_or_kw(h.node, 0, pn[0]), arg_or_kw(h.node, 1, pn[1])
        if a_var is None or a_idx is None:
            ctx.undecided(rule, load, norm(h.node)[:60], 'cannot tell the variable / record arguments of the read')
        var, rec = h.ev(a_var), h.ev(a_idx)
        chain = None
        for x in ast.walk(var):
            if isinstance(x, ast.Subscript) and isinstance(x.value, ast.Subscript) \
                    and isinstance(x.value.value, ast.Attribute) and x.value.value.attr == 'groups':
                chain = x
                break
        if chain is None:
            ctx.undecided(rule, load, _strip(var)[:80], 'the variable read is not taken from <files>.groups[<field set>][<file>]')
        out.append(LocatePath(h, var, rec, chain.value.value.value, chain.value.slice, chain.slice))
    return out, load


def rule_locate_arith(ctx, prog, m):
    """C09-R3, decided on the symbolic paths of _load_trajectory to each record read (through guard clauses, tuple
    returns and helpers): under `size table exists` the file position is the bisect of *that* table for the requested
    index, it is bounded before use, the group read belongs to the located file of the same file set, and the record
    index is the requested index relative to that file."""
    paths, ld = record_locate_paths(ctx, 'C09-R3', prog, m)
    idx = ld.params[1]
    n_table = 0
    for p in paths:
        t = p.table_none()
        others = p.other_tables()
        if t is True or (t is None and not p.uses_table() and all(pol for _, pol in others)):
            continue        # direct single-file read: C07-R1c
        n_table += 1
        line = p.hit.node.lineno
        X, F = norm(p.X), p.F
        # --- which table, which key
        if not (isinstance(F, ast.Call) and call_name(F).split('.')[-1] in ('bisect_left', 'bisect_right', 'bisect')
                and len(F.args) >= 2 and not F.keywords):
            if t is None and others:
                ctx.ob('C09-R3', ld, f'file position {_strip(F)[:60]}', False,
                       f'the position is decided by the size table of {_strip(others[0][0])}, the records are read from '
                       f'the files of {_strip(p.X)}', line=line)
                continue
            ctx.undecided('C09-R3', ld, _strip(F)[:80], 'file position is not a bisect of the size table')
        fn = call_name(F).split('.')[-1]
        tab, a1 = F.args[0], F.args[1]
        same = isinstance(tab, ast.Attribute) and tab.attr == 'size_index' and norm(tab.value) == X
        if not same:
            ctx.ob('C09-R3', ld, f'{_strip(F)[:80]}', False,
                   f'the file is located with `{_strip(tab)}` but the records are read from the files of `{_strip(p.X)}`: '
                   f'a field set whose constituent files have other lengths is read at the wrong position', line=line)
            continue
        if t is not False:
            ctx.undecided('C09-R3', ld, _strip(F)[:80], 'the size table is searched on a path that did not establish that it exists')
        d = _diff(a1, ast.Name(id=idx, ctx=ast.Load()))
        if d is None:
            ctx.undecided('C09-R3', ld, _strip(F)[:80], 'bisect form not recognised')
        good = (fn == 'bisect_left' and d == 1) or (fn in ('bisect_right', 'bisect') and d == 0)
        ctx.ob('C09-R3', ld, _strip(F), good,
               'first file whose cumulative count exceeds the index' if good else
               'off by one: an index equal to a cumulative count is located in the wrong file', line=line)
        # --- bound
        ft = norm(F)
        bounded = p.state.fact(f'{ft} < len({X}.size_index)') is True \
            or p.state.fact(f'{ft} == len({X}.size_index)') is False \
            or p.state.fact(f'{idx} < {X}.size_index[-1]') is True
        in_try = any(isinstance(a, ast.Try) and any(h.type is None or 'IndexError' in norm(h.type) or 'Exception' in norm(h.type)
                                                   for h in a.handlers) for a in ancestors(p.hit.node))
        if not bounded and in_try:
            ctx.undecided('C09-R3', ld, 'file index bound', 'bound delegated to an exception handler')
        ctx.ob('C09-R3', ld, 'file index bounded before use', bounded,
               'a position past the last file leaves before the file lists are subscripted' if bounded else
               'an index past the last file is used to subscript the file lists', line=line)
        # --- group of the located file, of the same file set
        keyed = isinstance(p.X, ast.Subscript) and norm(p.X.slice) == norm(p.K)
        ctx.ob('C09-R3', ld, f'group = {_strip(p.var)[:70]}', True if keyed or not isinstance(p.X, ast.Subscript) else False,
               'group of the located file' if keyed or not isinstance(p.X, ast.Subscript) else
               f'reads the groups of field set `{_strip(p.K)}` from the files of `{_strip(p.X)}`', line=line,
               nontrivial=keyed)
        # --- local index
        S_F = ast.Subscript(value=tab, slice=F, ctx=ast.Load())
        base = ast.BinOp(left=ast.Name(id=idx, ctx=ast.Load()), op=ast.Sub(), right=S_F)
        nr, nb = _nf(p.rec), _nf(base)
        verdict = None
        if nr is None or nb is None:
            ctx.undecided('C09-R3', ld, _strip(p.rec)[:80], 'local index arithmetic not recognised')
        rest = nr - nb
        own_len = f'len({X}.traj_dim[{ft}])'
        if rest.is_zero():
            verdict = (True, 'index relative to the located file (negative offset from its cumulative end)')
        else:
            atoms = rest.atoms()
            strip_own = _nf(ast.parse(_strip(own_len), mode='eval').body)
            if (rest - strip_own).is_zero():
                verdict = (True, 'index minus the first index of the located file (cumulative end less its own length)')
            elif len(atoms) == 1 and 'traj_dim' in next(iter(atoms)) and next(iter(atoms)).startswith('len('):
                used = [x for x in ast.walk(p.rec) if isinstance(x, ast.Call) and call_name(x) == 'len'
                        and 'traj_dim' in norm(x)]
                verdict = (False, f'the start of the located file is computed with `{_strip(used[0]) if used else "?"}`, '
                                  f'which is not the length of the located file `{_strip(own_len)}`: wrong for every '
                                  f'file but that one')
        if verdict is None:
            # index - size_index[F - 1]  (needs F > 0)   /   index itself (needs F == 0)
            prev = ast.BinOp(left=ast.Name(id=idx, ctx=ast.Load()), op=ast.Sub(),
                             right=ast.Subscript(value=tab, slice=ast.BinOp(left=F, op=ast.Sub(), right=ast.Constant(value=1)),
                                                 ctx=ast.Load()))
            positive = p.state.fact(f'0 < {ft}') is True or p.state.fact(f'{ft} == 0') is False \
                or p.state.fact(f'{ft} < 1') is False or p.state.fact(ft) is True
            zero = p.state.fact(f'0 < {ft}') is False or p.state.fact(f'{ft} == 0') is True \
                or p.state.fact(f'{ft} < 1') is True or p.state.fact(ft) is False
            if _same_nf(p.rec, prev):
                verdict = (True, 'index minus the cumulative count before the located file') if positive else \
                    (False, 'subtracts size_index[file - 1] also for the first file: size_index[-1] is the total')
            elif _same_nf(p.rec, ast.Name(id=idx, ctx=ast.Load())):
                verdict = (True, 'first file: the index itself') if zero else \
                    (False, 'the requested index is used unchanged inside a constituent file of a merged store')
            elif isinstance(p.rec, ast.BinOp) and not any(isinstance(x, ast.Attribute) and x.attr == 'size_index'
                                                          for x in ast.walk(p.rec)):
                verdict = (False, 'the local index does not depend on the size table')
        if verdict is None:
            ctx.undecided('C09-R3', ld, _strip(p.rec)[:80], 'local index arithmetic not recognised')
        ctx.ob('C09-R3', ld, f'local index = {_strip(p.rec)[:100]}', verdict[0],
               verdict[1] if verdict[0] else 'local index arithmetic does not select the record inside the located file: '
               + verdict[1], line=line)
    ctx.floor('C09-R3', n_table, 1, 'paths that locate a record through the size table')


def _same_nf(a, b) -> bool:
    na, nb = _nf(a), _nf(b)
    return na is not None and nb is not None and (na - nb).is_zero()


# ------------------------------------------------------------------------------------------------ truth table
#
# `merge` is *interpreted* (an abstract interpreter over the AST; nothing of the repository is imported or run) for the
# call `merge(<output>, [p0, …, pn-1])` with every other parameter at its default, once per assignment of
# identified / unidentified to the n inputs.  The only things with a known value are what the code itself computes
# from constants and from "is input k identified" (`<store opened on pk>.index_group` is None or an object,
# `.indexable` is a bool); everything else (paths, field sets, file-system calls) is an opaque object.  A branch on
# an opaque test forks the path, and a raise that is control-dependent on such a branch is somebody else's refusal
# (missing file, differing field sets) and its path is dropped.  A branch on a value that was computed from
# identifier information but could not be evaluated makes the whole table UNDECIDED, never a verdict.

ID_ATTRS = ('index_group', 'indexable')          # identifier information of an opened store
STORE_ATTRS = ID_ATTRS + ('_nc',)                 # … and its field sets: what the tables vary


PROCESS_STATE = ('classes', 'classes0', 'defaults', 'defaults0')     # entries of `_St.flags` that outlive a call


class TTUndecided(Exception):
    pass


class _Raised(Exception):
    def __init__(self, known, node):
        self.known, self.node = known, node


class _CannotEnter(Exception):
    """a helper whose call cannot be bound to its parameters"""


class AV:
    """abstract value: k = 'c' constant | 'l' list | 't' tuple | 's' set | 'd' dict | 'a' one-dimensional array |
    'r' record (NamedTuple / dataclass instance: field name -> value, in declaration order) | 'o' opaque object (not None) | 'f' function | 'u' unknown;  dep = computed from what was read from an input store;
    elem = the input it was made from;  dt = element type of an array ('i8', 'f8', 'i4', ...: numpy's kind + bytes;
    'O' python objects; None not known) - the values of an array are always held *as that type holds them*"""
    __slots__ = ('k', 'v', 'dep', 'elem', 'dt')

    def __init__(self, k, v=None, dep=False, elem=None, dt=None):
        self.k, self.v, self.dep, self.elem, self.dt = k, v, dep, elem, dt

    def __repr__(self):
        return f'<{self.k} {self.v!r}{" dep" if self.dep else ""}{"" if self.elem is None else " #%d" % self.elem}>'


def _deep(v: AV, what: str = 'dep', seen=None):
    """dep: is v (or anything in it) computed from identifier information; elem: the set of inputs it was made from"""
    seen = set() if seen is None else seen
    if id(v) in seen:
        return False if what == 'dep' else set()
    seen.add(id(v))
    kids = []
    if v.k in ('l', 't', 'a'):
        kids = list(v.v)
    elif v.k in ('d', 'r'):
        kids = list(v.v.values())
    if what == 'dep':
        return v.dep or any(_deep(x, what, seen) for x in kids)
    out = set() if v.elem is None else {v.elem}
    for x in kids:
        out |= _deep(x, what, seen)
    return out


def _truth(v: AV):
    if v.k == 'c':
        return bool(v.v)
    if v.k in ('l', 't', 's', 'd'):
        return len(v.v) > 0
    if v.k in ('f', 'r'):
        return True
    return None


def _seq(v: AV):
    """the elements of a concrete iterable, or None"""
    if v.k in ('l', 't', 'a'):
        return list(v.v)
    if v.k == 's':
        try:
            return [_member(x, v.dep) for x in sorted(v.v, key=lambda x: (str(type(x)), sorted(x) if isinstance(x, frozenset) else x))]
        except TypeError:
            return [_member(x, v.dep) for x in v.v]
    if v.k == 'd':
        return [AV('c', x, v.dep) for x in v.v]
    if v.k == 'r':
        return list(v.v.values())
    return None


def _hashable(v: AV):
    """the Python value under which a concrete value is a member of a set: constants as they are, a set of constants as a
    frozenset, a tuple of those as a tuple; _NO for anything else"""
    if v.k == 'c':
        return v.v
    if v.k == 's':
        return frozenset(v.v)
    if v.k == 't':
        out = tuple(_hashable(x) for x in v.v)
        return _NO if any(x is _NO for x in out) else out
    return _NO


def _member(x, dep) -> AV:
    """inverse of `_hashable`"""
    if isinstance(x, frozenset):
        return AV('s', set(x), dep)
    if isinstance(x, tuple):
        return AV('t', tuple(_member(y, dep) for y in x), dep)
    return AV('c', x, dep)


def _eq(a: AV, b: AV):
    """a == b: True / False / None"""
    if a.k == 'u' or b.k == 'u':
        return None
    if a.k == 'c' and b.k == 'c':
        return a.v == b.v
    if a.k == 'a' or b.k == 'a':
        return None          # element-wise in numpy
    if a.k == 'r':
        a = AV('t', tuple(a.v.values()))
    if b.k == 'r':
        b = AV('t', tuple(b.v.values()))
    if a.k in ('l', 't') and a.k == b.k:
        if len(a.v) != len(b.v):
            return False
        rs = [_eq(x, y) for x, y in zip(a.v, b.v)]
        return False if any(r is False for r in rs) else (None if any(r is None for r in rs) else True)
    if a.k == 's' and b.k == 's':
        return a.v == b.v
    if a.k == 'o' or b.k == 'o':
        other = b if a.k == 'o' else a
        return False if other.k == 'c' and other.v is None else None     # an opaque object is not None; else unknown
    if a.k == 'd' and b.k == 'd':
        return None
    if a.k == b.k == 'f':
        return a.v == b.v
    return False            # values of different kinds


_NO = object()


def _is_model(v: 'AV') -> bool:
    """AV('o', ('model', {attribute: value}, {names of the attributes the table varies}))"""
    return v.k == 'o' and isinstance(v.v, tuple) and len(v.v) == 3 and v.v[0] == 'model'


def _is_inst(v: 'AV') -> bool:
    """AV('o', ('inst', {attribute: value}, (file, qualified name of the class))): an instance of a plain class of the
    repository (a helper object that holds state: accumulator, writer, context manager).  Its own attributes are in the
    dictionary; what the class body binds is looked up in the state of the class, which is *one* set of values per process
    (`_St.flags['classes']`): shared by all instances and kept between calls"""
    return v.k == 'o' and isinstance(v.v, tuple) and len(v.v) == 3 and v.v[0] == 'inst'


_CM_BASES = {'object', 'AbstractContextManager', 'contextlib.AbstractContextManager', 'ContextDecorator',
             'contextlib.ContextDecorator'}


def _concrete(v: AV):
    """the Python value of a fully concrete abstract value (numbers, strings, None, nested tuples / lists), else _NO"""
    if v.k == 'c':
        return v.v
    if v.k in ('t', 'l', 'r', 'a'):
        out = [_concrete(x) for x in (v.v.values() if v.k == 'r' else v.v)]
        return _NO if any(x is _NO for x in out) else tuple(out)
    return _NO


# ---- element types of arrays ---------------------------------------------------------------------------------------
#
# An array holds its values as its element type holds them: an identifier above 2**53 that passes through a float64
# array comes out as another number, one above 2**31 that passes through an int32 array wraps around.  The interpreter
# therefore keeps the element type of every array it models (numpy's kind letter + size in bytes) and converts the
# values whenever numpy would: creation with / without `dtype`, concatenation and arithmetic (promotion), `astype`,
# a store into a typed netCDF variable.  On model identifiers that only the 64-bit integer type holds exactly, "what is
# stored is what was read" then fails for every writer that sends the identifiers through a narrower representation.

_DT_NAMES = {
    'int': 'i8', 'int64': 'i8', 'int_': 'i8', 'intp': 'i8', 'longlong': 'i8', 'i8': 'i8', 'q': 'i8', 'l': 'i8', 'long': 'i8',
    'int32': 'i4', 'intc': 'i4', 'i4': 'i4', 'i': 'i4', 'int16': 'i2', 'i2': 'i2', 'h': 'i2', 'short': 'i2',
    'int8': 'i1', 'i1': 'i1', 'byte': 'i1',
    'uint64': 'u8', 'uint': 'u8', 'uintp': 'u8', 'ulonglong': 'u8', 'u8': 'u8', 'Q': 'u8', 'L': 'u8',
    'uint32': 'u4', 'uintc': 'u4', 'u4': 'u4', 'I': 'u4', 'uint16': 'u2', 'u2': 'u2', 'H': 'u2', 'ushort': 'u2',
    'uint8': 'u1', 'u1': 'u1', 'ubyte': 'u1', 'B': 'u1',
    'float': 'f8', 'float64': 'f8', 'double': 'f8', 'float_': 'f8', 'f8': 'f8', 'd': 'f8',
    'float32': 'f4', 'single': 'f4', 'f4': 'f4', 'f': 'f4', 'float16': 'f2', 'half': 'f2', 'f2': 'f2', 'e': 'f2',
    'bool': 'b1', 'bool_': 'b1', 'b1': 'b1', '?': 'b1', 'object': 'O', 'object_': 'O', 'O': 'O',
}
_DT_TEXT = {'i': 'int', 'u': 'uint', 'f': 'float', 'b': 'bool'}
ID_DT = 'i8'            # the element type of flight identifiers (`field_type=np.int64`; SQLite row ids are 64-bit)


def dt_text(code) -> str:
    if code is None:
        return 'unknown type'
    if code == 'O':
        return 'object'
    return 'bool' if code == 'b1' else f'{_DT_TEXT[code[0]]}{8 * int(code[1:])}'


def dt_code(v: 'AV'):
    """element type named by the value of a `dtype` argument: `np.int64`, `int`, `'i8'`, `'<f8'`, `x.dtype`; None when
    it is not one the interpreter knows"""
    if v.k == 'c' and isinstance(v.v, str):
        return _DT_NAMES.get(v.v.lstrip('<>=|'))
    if v.k == 'o' and isinstance(v.v, tuple) and v.v and v.v[0] == 'dtype':
        return v.v[1]
    if v.k == 'o' and isinstance(v.v, str):
        name = v.v.lstrip('.')
        if name.endswith('()'):
            return None
        return _DT_NAMES.get(name) if len(name) > 1 else None
    return None


def dt_promote(a, b):
    """numpy's result type of two element types (None: not known)"""
    if a is None or b is None:
        return a if b is None else b
    if a == b:
        return a
    if 'O' in (a, b):
        return 'O'
    if a == 'b1':
        return b
    if b == 'b1':
        return a
    ka, na, kb, nb = a[0], int(a[1:]), b[0], int(b[1:])
    if ka == kb:
        return ka + str(max(na, nb))
    if 'f' in (ka, kb):
        nf, ni = (na, nb) if ka == 'f' else (nb, na)
        return 'f' + str(max(nf, 2 if ni == 1 else (4 if ni == 2 else 8)))
    ni, nu = (na, nb) if ka == 'i' else (nb, na)
    if nu < ni:
        return 'i' + str(ni)
    return 'f8' if nu >= 8 else 'i' + str(2 * nu)


def dt_cast(x, code):
    """the Python value x as an element of type `code` holds it"""
    import math
    import struct
    if code is None or code == 'O' or x is None or isinstance(x, str):
        return x
    k, n = code[0], int(code[1:])
    if k == 'b':
        return bool(x)
    if k == 'f':
        x = float(x)
        if n >= 8 or x != x or x in (math.inf, -math.inf):
            return x
        fmt = 'f' if n == 4 else 'e'
        try:
            return struct.unpack(fmt, struct.pack(fmt, x))[0]
        except OverflowError:
            return math.copysign(math.inf, x)
    if isinstance(x, float):
        if x != x or x in (math.inf, -math.inf):
            raise TTUndecided('a non-finite value is converted to an integer type')
        x = math.trunc(x)
    x, bits = int(x), 8 * n
    if k == 'u':
        return x % (1 << bits)
    return (x + (1 << (bits - 1))) % (1 << bits) - (1 << (bits - 1))


def dt_of_values(items) -> str | None:
    """the element type numpy gives an array made from these Python values (no `dtype` given)"""
    vals = [x.v for x in items]
    if not vals:
        return 'f8'                               # np.array([]), np.asarray([]): float64
    if any(isinstance(x, float) for x in vals):
        return 'f8'
    if all(isinstance(x, bool) for x in vals):
        return 'b1'
    if all(isinstance(x, int) for x in vals):
        return 'i8'
    return None


def dt_of(v: 'AV'):
    """element type of an array value / of the array numpy makes from a list"""
    if v.k == 'a' and v.dt is not None:
        return v.dt
    if v.k in ('a', 'l', 't'):
        q = list(v.v)
        if all(x.k == 'c' for x in q):
            if v.k == 'a' and not q:
                return None
            return dt_of_values(q)
    return None


class _St:
    """one path: environment, values of the repository calls already made for the current statement, the number of
    enclosing branches that were taken on an opaque test, whether identifier information decided anything"""

    def __init__(self, env=None, cache=None, under=0, flags=None, outer=None):
        self.env, self.cache, self.under = env if env is not None else {}, cache or {}, under
        self.flags = flags if flags is not None else {'used': False, 'built': 0, 'asserts': 0}    # one record per path, shared by the
        self.outer = outer            # states of its callees; `outer` = the caller's path while a helper is interpreted
        #                               (a fork copies all of it consistently)

    @property
    def used(self):
        return self.flags['used']

    @used.setter
    def used(self, v):
        self.flags['used'] = bool(v) or self.flags['used']

    def fork(self):
        return copy.deepcopy(self)


class TruthTable:
    def __init__(self, prog, fi, identified, input_list_call, builder_name=None, cap=400, fieldsets=None):
        self.prog, self.fi, self.identified, self.cap = prog, fi, tuple(identified), cap
        self.root_fi = fi
        self.fieldsets = tuple(fieldsets) if fieldsets is not None else tuple(frozenset({'base'}) for _ in self.identified)
        self.input_list_call = input_list_call       # name of the helper whose result is the input list
        self.builder_name = builder_name             # name of the merged-index builder (calls are counted per path)
        self.funcs: list = []                        # (FunctionDef | Lambda node, FunctionInfo | None)
        self.sizes = None                            # number of trajectories per input (bounded interpretation of the builder)
        self.index_tables = None                     # per input: (flight ids ascending, local positions in the same order)
        self.enter_helpers = True                    # interpret private helpers of the module that receive varied values
        self.foreign_elem = False                    # some branch was taken on an opaque test about an input
        self.depth = 0
        self.steps = 0

    # ---- values -----------------------------------------------------------------------------------------
    def inputs(self):
        return AV('l', [AV('o', f'input {k}', False, k) for k in range(len(self.identified))])

    def made_from(self, parts, what='object'):
        """the result of a computation this interpreter does not model"""
        dep = any(_deep(p) for p in parts)
        elems = set()
        for p in parts:
            elems |= _deep(p, 'elem')
        return AV('o', what, dep, next(iter(elems)) if len(elems) == 1 else None)

    def unknown(self, parts, extra_dep=False):
        return AV('u', None, extra_dep or any(_deep(p) for p in parts))

    def fn(self, node, fi=None) -> AV:
        for i, (n, _) in enumerate(self.funcs):
            if n is node:
                return AV('f', i)
        self.funcs.append((node, fi))
        return AV('f', len(self.funcs) - 1)

    def cast_items(self, items, dt, st: _St, node, why: str = ''):
        """the elements as an array of element type dt holds them; a conversion that changes a value is put on the
        record of the path (`flags['repr']`), with the place where it happens"""
        if dt is None or dt == 'O':
            return list(items)
        out, changed = [], None
        for x in items:
            if x.k != 'c' or isinstance(x.v, str) or x.v is None:
                out.append(x)
                continue
            y = dt_cast(x.v, dt)
            if changed is None and (y != x.v):
                changed = (x.v, y)
            out.append(x if (y == x.v and type(y) is type(x.v)) else AV('c', y, x.dep))
        if changed is not None and st is not None:
            text = norm(node)[:70] if isinstance(node, ast.AST) else str(node)
            st.flags.setdefault('repr', []).append((getattr(node, 'lineno', 0), f'`{text}` holds its values as {dt_text(dt)}{why} '
                                                    f'({changed[0]} becomes {changed[1]!r})'))
        return out

    # ---- expressions --------------------------------------------------------------------------------------
    def ev(self, e, st: _St) -> AV:
        self.steps += 1
        if self.steps > 200000:
            raise TTUndecided('interpretation budget exhausted')
        m = getattr(self, 'ev_' + type(e).__name__, None)
        if m is None:
            kids = [self.ev(c, st) for c in ast.iter_child_nodes(e) if isinstance(c, ast.expr)]
            return self.unknown(kids, _mentions_id(e))
        return m(e, st)

    def ev_Constant(self, e, st):
        return AV('c', e.value) if isinstance(e.value, (type(None), bool, int, float, str)) else AV('o', 'constant')

    def ev_Name(self, e, st):
        if e.id in st.env:
            return st.env[e.id]
        return AV('o', e.id)             # a global: module, class, function

    def ev_NamedExpr(self, e, st):
        v = self.ev(e.value, st)
        st.env[e.target.id] = v
        return v

    def ev_JoinedStr(self, e, st):
        return self.made_from([self.ev(x.value, st) for x in e.values if isinstance(x, ast.FormattedValue)], 'str')

    def ev_Lambda(self, e, st):
        return self.fn(e)

    def ev_Tuple(self, e, st):
        return self._display(e, st, 't')

    def ev_List(self, e, st):
        return self._display(e, st, 'l')

    def _display(self, e, st, k):
        out = []
        for x in e.elts:
            if isinstance(x, ast.Starred):
                s = _seq(self.ev(x.value, st))
                if s is None:
                    return self.unknown([self.ev(y, st) for y in e.elts if not isinstance(y, ast.Starred)] + [self.ev(x.value, st)])
                out += s
            else:
                out.append(self.ev(x, st))
        return AV(k, out if k == 'l' else tuple(out))

    def ev_Set(self, e, st):
        vals = [self.ev(x, st) for x in e.elts if not isinstance(x, ast.Starred)]
        if len(vals) == len(e.elts) and all(_hashable(v) is not _NO for v in vals):
            return AV('s', {_hashable(v) for v in vals}, any(_deep(v) for v in vals))
        return self.unknown(vals)

    def ev_Dict(self, e, st):
        out, dep = {}, False
        for k, v in zip(e.keys, e.values):
            if k is None:
                return self.unknown([self.ev(v, st)])
            kv, vv = self.ev(k, st), self.ev(v, st)
            if kv.k != 'c':
                return self.unknown([kv, vv])
            out[kv.v] = vv
            dep = dep or kv.dep
        return AV('d', out, dep)

    def ev_Attribute(self, e, st):
        b = self.ev(e.value, st)
        return self.attribute(b, e.attr, st)

    def attribute(self, b: AV, attr: str, st: _St) -> AV:
        if b.k == 'r':
            return b.v[attr] if attr in b.v else self.unknown([b])
        if _is_model(b):
            # a model object: the attributes the table varies are known, the others are anything
            return b.v[1][attr] if attr in b.v[1] else AV('u', None, attr in b.v[2])
        if _is_inst(b):
            return self.inst_attribute(b, attr, st)
        if b.k == 'o' and b.v == 'store' and b.elem is not None:
            # a store opened on input k: what the tables vary is known, everything else is read from the file
            k = b.elem
            if attr == 'indexable':
                return AV('c', self.identified[k], True)
            if attr == 'index_group':
                return AV('o', 'index group', True, k) if self.identified[k] else AV('c', None, True)
            if attr == '_nc':
                return AV('d', {n: AV('o', 'files of a field set', True, k) for n in sorted(self.fieldsets[k])}, True)
            return AV('o', f'.{attr}', True, k)
        if attr in STORE_ATTRS:
            return AV('u', None, True)
        if b.k == 'o' and b.v == 'index group' and attr == 'variables' and self.index_tables is not None and b.elem is not None:
            ids, idx = self.index_tables[b.elem]
            return AV('d', {'flight_id': AV('a', [AV('c', x, True) for x in ids], True, None, ID_DT),
                            'trajectory_index': AV('a', [AV('c', x, True) for x in idx], True, None, ID_DT)}, True)
        if b.k == 'a':
            if attr == 'size':
                return AV('c', len(b.v), b.dep)
            if attr == 'shape':
                return AV('t', (AV('c', len(b.v), b.dep),))
            if attr in ('data', 'T'):
                return b
            if attr == 'dtype' and dt_of(b) is not None:
                return AV('o', ('dtype', dt_of(b)), b.dep)
        if b.k == 'o':
            return AV('o', f'.{attr}', b.dep, b.elem)
        return self.unknown([b])

    def ev_Subscript(self, e, st):
        b = self.ev(e.value, st)
        if isinstance(e.slice, ast.Constant) and e.slice.value is Ellipsis and b.k in ('a', 'l'):
            return AV(b.k, list(b.v), b.dep, None, b.dt)
        if isinstance(e.slice, ast.Slice):
            parts = [self.ev(x, st) if x is not None else AV('c', None) for x in (e.slice.lower, e.slice.upper, e.slice.step)]
            s = _seq(b) if b.k in ('l', 't', 'a') else None
            if s is not None and all(p.k == 'c' and (p.v is None or isinstance(p.v, int)) for p in parts):
                r = s[slice(*(p.v for p in parts))]
                return AV(b.k, tuple(r) if b.k == 't' else r, b.dep or any(p.dep for p in parts), None, b.dt)
            return self.made_from([b] + parts, 'slice') if b.k == 'o' else self.unknown([b] + parts)
        i = self.ev(e.slice, st)
        if b.k == 'a' and i.k in ('a', 'l'):
            if all(x.k == 'c' and isinstance(x.v, int) and not isinstance(x.v, bool) and -len(b.v) <= x.v < len(b.v) for x in i.v):
                return AV('a', [b.v[x.v] for x in i.v], b.dep or _deep(i), None, b.dt)
            return self.unknown([b, i])
        if b.k == 'o' and isinstance(b.v, tuple) and b.v[0] == 'anykey':
            return b.v[1]                                      # a model mapping with the same value under every key
        if b.k == 'o' and i.k == 'c' and isinstance(i.v, str):
            return AV('o', ('var', i.v), b.dep, b.elem)        # a named member: `group.variables['flight_id']`
        if b.k == 'r':
            b = AV('t', tuple(b.v.values()), b.dep)
        if b.k in ('l', 't', 'a') and i.k == 'c' and isinstance(i.v, int) and not isinstance(i.v, bool):
            if -len(b.v) <= i.v < len(b.v):
                r = b.v[i.v]
                return r if not (b.dep or i.dep) else AV(r.k, r.v, True, r.elem, r.dt)
            raise _Raised(False, e)      # IndexError: nobody's refusal
        if b.k == 'd' and i.k == 'c':
            if i.v in b.v:
                return b.v[i.v]
            return self.unknown([b, i])
        if b.k == 'o':
            return self.made_from([b, i], 'item')
        return self.unknown([b, i])

    def ev_UnaryOp(self, e, st):
        v = self.ev(e.operand, st)
        if isinstance(e.op, ast.Not):
            t = _truth(v)
            return AV('c', not t, _deep(v)) if t is not None else self.unknown([v])
        if v.k == 'c' and isinstance(v.v, (int, float)):
            try:
                return AV('c', {ast.USub: lambda x: -x, ast.UAdd: lambda x: +x, ast.Invert: lambda x: ~x}[type(e.op)](v.v), v.dep)
            except Exception:
                pass
        return self.unknown([v])

    def ev_BoolOp(self, e, st):
        is_or = isinstance(e.op, ast.Or)
        seen = []
        for x in e.values:
            v = self.ev(x, st)
            t = _truth(v)
            seen.append(v)
            if t is None:
                # the operands after an undecided one still decide the result when one of them is decisive
                rest = [self.ev(y, st.fork()) for y in e.values[len(seen):]]
                if any(_truth(r) is is_or for r in rest):
                    return AV('c', is_or, any(_deep(s) for s in seen + rest))
                return self.unknown(seen + rest)
            if t is is_or:
                return v if len(seen) == 1 or not any(_deep(s) for s in seen) else AV(v.k, v.v, True, v.elem, v.dt)
        v = seen[-1]
        return v if not any(_deep(s) for s in seen[:-1]) else AV(v.k, v.v, True, v.elem, v.dt)

    def ev_IfExp(self, e, st):
        c = self.ev(e.test, st)
        t = _truth(c)
        if t is not None:
            v = self.ev(e.body if t else e.orelse, st)
            return v if not _deep(c) else AV(v.k, v.v, True, v.elem, v.dt)
        a, b = self.ev(e.body, st.fork()), self.ev(e.orelse, st.fork())
        if _eq(a, b) is True and a.k == 'c':
            return a
        return self.unknown([c, a, b])

    def ev_BinOp(self, e, st):
        a, b = self.ev(e.left, st), self.ev(e.right, st)
        dep = _deep(a) or _deep(b)
        try:
            if a.k == 'c' and b.k == 'c' and not isinstance(a.v, str) and not isinstance(b.v, str) \
                    and a.v is not None and b.v is not None:
                f = {ast.Add: lambda x, y: x + y, ast.Sub: lambda x, y: x - y, ast.Mult: lambda x, y: x * y,
                     ast.FloorDiv: lambda x, y: x // y, ast.Mod: lambda x, y: x % y, ast.BitAnd: lambda x, y: x & y,
                     ast.BitOr: lambda x, y: x | y, ast.BitXor: lambda x, y: x ^ y}.get(type(e.op))
                if f is not None:
                    return AV('c', f(a.v, b.v), dep)
            if a.k == 'a' or b.k == 'a':
                f = {ast.Add: lambda x, y: x + y, ast.Sub: lambda x, y: x - y, ast.Mult: lambda x, y: x * y,
                     ast.Div: lambda x, y: float(x) / float(y), ast.FloorDiv: lambda x, y: x // y,
                     ast.Mod: lambda x, y: x % y}.get(type(e.op))
                xs = a.v if a.k == 'a' else ([a] * len(b.v) if a.k == 'c' else None)
                ys = b.v if b.k == 'a' else ([b] * len(a.v) if b.k == 'c' else (b.v if b.k == 'l' else None))
                if a.k == 'l':
                    xs = a.v
                if f is not None and xs is not None and ys is not None and len(xs) == len(ys) \
                        and all(x.k == 'c' and isinstance(x.v, (int, float)) for x in list(xs) + list(ys)):
                    # element type of the result: numpy's promotion; a Python scalar only decides between the kinds
                    dt = None
                    for side in (a, b):
                        if side.k == 'c':
                            continue
                        d = dt_of(side)
                        if d is None:
                            dt = None
                            break
                        dt = d if dt is None else dt_promote(dt, d)
                    if dt is not None:
                        if any(side.k == 'c' and isinstance(side.v, float) for side in (a, b)) and dt[0] != 'f':
                            dt = 'f8'
                        if isinstance(e.op, ast.Div) and dt[0] != 'f':
                            dt = 'f8'
                    xs, ys = self.cast_items(xs, dt, st, e), self.cast_items(ys, dt, st, e)     # as numpy converts the operands
                    vals = [AV('c', dt_cast(f(x.v, y.v), dt), x.dep or y.dep) for x, y in zip(xs, ys)]
                    return AV('a', vals, dep, None, dt)
                return self.unknown([a, b])
            if a.k == b.k == 'l' and isinstance(e.op, ast.Add):
                return AV('l', a.v + b.v, a.dep or b.dep)
            if a.k == b.k == 't' and isinstance(e.op, ast.Add):
                return AV('t', a.v + b.v, a.dep or b.dep)
            if a.k == b.k == 's':
                f = {ast.BitAnd: lambda x, y: x & y, ast.BitOr: lambda x, y: x | y, ast.BitXor: lambda x, y: x ^ y,
                     ast.Sub: lambda x, y: x - y}.get(type(e.op))
                if f is not None:
                    return AV('s', f(a.v, b.v), dep)
            if a.k == 'l' and b.k == 'c' and isinstance(b.v, int) and isinstance(e.op, ast.Mult):
                return AV('l', a.v * b.v, dep)
        except Exception:
            return self.unknown([a, b])
        if a.k == 'o' or b.k == 'o':
            return self.made_from([a, b], 'result')
        return self.unknown([a, b])

    def ev_Compare(self, e, st):
        left = self.ev(e.left, st)
        dep = _deep(left)
        result = True
        for op, c in zip(e.ops, e.comparators):
            right = self.ev(c, st)
            dep = dep or _deep(right)
            r = self.compare(op, left, right)
            if r is False:
                return AV('c', False, dep)
            if r is None:
                result = None
            left = right
        return AV('c', True, dep) if result else AV('u', None, dep)

    def compare(self, op, a: AV, b: AV):
        if isinstance(op, (ast.Is, ast.IsNot)):
            r = None
            for x, y in ((a, b), (b, a)):
                if y.k == 'c' and y.v is None:
                    r = (x.v is None) if x.k == 'c' else (None if x.k == 'u' else False)
                    break
            else:
                if a.k == 'c' and b.k == 'c':
                    r = type(a.v) is type(b.v) and a.v == b.v
            return r if r is None or isinstance(op, ast.Is) else not r
        if isinstance(op, (ast.Eq, ast.NotEq)):
            r = _eq(a, b)
            return r if r is None or isinstance(op, ast.Eq) else not r
        if isinstance(op, (ast.Lt, ast.LtE, ast.Gt, ast.GtE)):
            if a.k == 'c' and b.k == 'c':
                try:
                    return {ast.Lt: a.v < b.v, ast.LtE: a.v <= b.v, ast.Gt: a.v > b.v, ast.GtE: a.v >= b.v}[type(op)] \
                        if True else None
                except TypeError:
                    return None
            if a.k == 's' and b.k == 's':
                return {ast.Lt: a.v < b.v, ast.LtE: a.v <= b.v, ast.Gt: a.v > b.v, ast.GtE: a.v >= b.v}[type(op)]
            return None
        if isinstance(op, (ast.In, ast.NotIn)):
            s = _seq(b)
            if s is None:
                return None
            rs = [_eq(a, x) for x in s]
            r = True if any(x is True for x in rs) else (None if any(x is None for x in rs) else False)
            return r if r is None or isinstance(op, ast.In) else not r
        return None

    # comprehensions ------------------------------------------------------------------------------------------
    def _comp(self, e, st, make):
        items = []
        undecided = []

        def rec(i, env_st):
            if i == len(e.generators):
                items.append(make(env_st))
                return
            g = e.generators[i]
            it = self.ev(g.iter, env_st)
            s = _seq(it)
            if s is None:
                undecided.append(it)
                return
            for x in s:
                self.bind(g.target, x, env_st)
                ok = True
                for c in g.ifs:
                    cv = self.ev(c, env_st)
                    t = _truth(cv)
                    if t is None:
                        undecided.append(cv)
                        ok = False
                        break
                    if not t:
                        ok = False
                        break
                if ok:
                    rec(i + 1, env_st)
        inner = _St(dict(st.env), st.cache, st.under, st.flags, st.outer)     # comprehension variables do not leak
        rec(0, inner)
        if undecided:
            return None, undecided
        return items, []

    def ev_ListComp(self, e, st):
        items, und = self._comp(e, st, lambda s: self.ev(e.elt, s))
        return AV('l', items) if items is not None else self.unknown(und, _mentions_id(e))

    ev_GeneratorExp = ev_ListComp

    def ev_SetComp(self, e, st):
        items, und = self._comp(e, st, lambda s: self.ev(e.elt, s))
        if items is None:
            return self.unknown(und, _mentions_id(e))
        if all(_hashable(v) is not _NO for v in items):
            return AV('s', {_hashable(v) for v in items}, any(_deep(v) for v in items))
        return self.unknown(items, _mentions_id(e))

    def ev_DictComp(self, e, st):
        items, und = self._comp(e, st, lambda s: (self.ev(e.key, s), self.ev(e.value, s)))
        if items is None:
            return self.unknown(und, _mentions_id(e))
        if all(k.k == 'c' for k, _ in items):
            return AV('d', {k.v: v for k, v in items}, any(k.dep for k, _ in items))
        return self.unknown([x for kv in items for x in kv], _mentions_id(e))

    # calls ---------------------------------------------------------------------------------------------------
    def note_call(self, e, st):
        """count the evaluations of the merged-index builder on this path (once per evaluation of the call)"""
        if call_name(e).split('.')[-1] == self.builder_name and ('noted', id(e)) not in st.cache:
            st.cache[('noted', id(e))] = True
            st.flags['built'] += 1

    def ev_Call(self, e, st):
        if id(e) in st.cache:
            return st.cache[id(e)]
        cn = call_name(e)
        self.note_call(e, st)
        if cn.split('.')[-1] == self.input_list_call:
            for a in list(e.args) + [k.value for k in e.keywords]:
                self.ev(a, st)
            return st.env.get('__inputs__') or self.inputs()
        if any(k.arg is None for k in e.keywords):
            parts = [self.ev(a.value if isinstance(a, ast.Starred) else a, st) for a in e.args] + [self.ev(k.value, st) for k in e.keywords]
            return self.unknown(parts, _mentions_id(e))
        recv = None
        if isinstance(e.func, ast.Attribute):
            recv = self.ev(e.func.value, st)
        args = []
        for a in e.args:
            if isinstance(a, ast.Starred):
                sv = self.ev(a.value, st)
                q = _seq(sv)
                if q is None:
                    return self.unknown(args + [sv] + [self.ev(k.value, st) for k in e.keywords], _mentions_id(e))
                args += q
            else:
                args.append(self.ev(a, st))
        kw = {k.arg: self.ev(k.value, st) for k in e.keywords}
        rec = self.record(e.func, args, kw)
        if rec is not None:
            return rec
        lib = self.library(cn, recv, e, args, kw, st)
        if lib is not None:
            return lib
        if _is_store_open(e):
            elems = set()
            for p_ in args + list(kw.values()):
                elems |= _deep(p_, 'elem')
            if len(elems) == 1:
                return AV('o', 'store', True, next(iter(elems)))
            return AV('u', None, True)
        # a method of a helper object of the repository
        if recv is not None and _is_inst(recv):
            meth = self.inst_method(recv, e.func.attr)
            if meth is not None:
                return self.apply(self.fn(meth.node, meth), args, kw, st, e, method_recv=recv)
            f = self.inst_attribute(recv, e.func.attr, st)
            return self.apply(f, args, kw, st, e) if f.k == 'f' else self.unknown([recv] + args + list(kw.values()))
        # a method of a concrete container
        if recv is not None and recv.k in ('l', 't', 's', 'd', 'a'):
            r = self.method(recv, e.func.attr, args, kw, st, e)
            if r is not None:
                return r
            return self.unknown([recv] + args + list(kw.values()))
        # a local function / lambda
        f = self.ev(e.func, st) if isinstance(e.func, ast.Name) else None
        if f is not None and f.k == 'f':
            return self.apply(f, args, kw, st, e)
        if isinstance(e.func, ast.Name) and e.func.id not in st.env:
            r = self.builtin(e.func.id, args, kw, st, e)
            if r is not None:
                return r
        if not (isinstance(e.func, ast.Name) and e.func.id in st.env):
            inst = self.instantiate(e, args, kw, st)
            if inst is not None:
                return inst
        # a helper of the repository that is handed identifier information or (objects made from) the inputs
        parts = ([recv] if recv is not None else []) + args + list(kw.values())
        if any(_deep(p) or _deep(p, 'elem') for p in parts):
            callee = self.enterable(e)
            if callee is not None:
                return self.apply(self.fn(callee.node, callee), args, kw, st, e, method_recv=recv)
        if recv is not None and recv.k == 'u':
            return self.unknown(parts)
        return self.made_from(parts, f'{cn}()')

    _ENT: dict = {}

    def record(self, func: ast.expr, args, kw) -> AV | None:
        """an instance of a NamedTuple / dataclass of the module: its fields by name"""
        name = func.id if isinstance(func, ast.Name) else (func.attr if isinstance(func, ast.Attribute) else None)
        mod = getattr(self.fi, 'module', None)
        if name is None or mod is None:
            return None
        cls = class_of(self.prog, mod, func)
        if cls is None:
            return None
        is_record = any(str(b).split('.')[-1] == 'NamedTuple' for b in cls.base_exprs) \
            or any('dataclass' in norm(d) for d in cls.node.decorator_list)
        if not is_record:
            return None
        fields = list(cls.annotated_fields())
        defaults = {k: v for k, v in cls.class_assignments().items() if v is not None}
        if len(args) > len(fields) or any(k not in fields for k in kw):
            return None
        vals = dict(zip(fields, args))
        for k, v in kw.items():
            if k in vals:
                return None
            vals[k] = v
        for f in fields:
            if f not in vals:
                if f not in defaults:
                    return None
                vals[f] = self.ev(defaults[f], _St())
        return AV('r', {f: vals[f] for f in fields})

    # ---- helper objects: instances of plain classes of the repository ---------------------------------------------
    def _plain_class(self, cls) -> bool:
        """a class whose instances this interpreter can hold: an ordinary class (not a record, an enumeration, an
        exception, a protocol; no metaclass) whose bases are ordinary classes of the repository; not the class of the
        function under interpretation (its instances are the stores the model provides)"""
        seen = []
        for c in cls.mro():
            if c.node.keywords or any('dataclass' in norm(d) for d in c.node.decorator_list):
                return False
            if len([b for b in c.base_exprs if str(b) not in _CM_BASES]) != len(c.bases):
                return False
            if any(isinstance(x, (ast.Yield, ast.YieldFrom, ast.Await)) for mth in c.methods.values()
                   for x in walk_no_nested(mth.node)):
                return False
            seen.append(c)
        root = getattr(self.root_fi, 'cls', None)
        return not (root is not None and any(c is root or c.name == root.name for c in seen))

    @staticmethod
    def _class_key(cls):
        return cls.module.relpath, next((q for q, k in cls.module.classes.items() if k is cls), cls.name)

    def class_state(self, cls, st: _St) -> dict:
        """the values bound in the body of the class: evaluated once (when the class is first used on this path) and
        kept - they belong to the class, not to an instance"""
        key = self._class_key(cls)
        cs = st.flags.setdefault('classes', {})
        if key not in cs:
            vals: dict = {}
            for a, e in cls.class_assignments().items():
                if e is not None:
                    vals[a] = self.ev(e, _St(dict(vals)))
            cs[key] = vals
            st.flags.setdefault('classes0', {})[key] = {a: repr(v) for a, v in vals.items()}
        return cs[key]

    def inst_class(self, inst: AV):
        rel, q = inst.v[2]
        try:
            return self.prog.module(rel).classes.get(q)
        except Exception:
            return None

    def inst_method(self, inst: AV, name: str):
        """the function that `inst.name(...)` calls, unless the instance or the class body binds the name to a value"""
        cls = self.inst_class(inst)
        if cls is None or name in inst.v[1]:
            return None
        for c in cls.mro():
            if name in c.methods:
                decs = [d.split('.')[-1].split('(')[0] for d in c.methods[name].decorators()]
                return c.methods[name] if all(d in ('staticmethod', 'classmethod') for d in decs) else None
            if c.class_assignments().get(name) is not None:
                return None
        return None

    def inst_attribute(self, inst: AV, attr: str, st: _St) -> AV:
        if attr in inst.v[1]:
            return inst.v[1][attr]
        cls = self.inst_class(inst)
        for c in (cls.mro() if cls is not None else []):
            if attr in c.methods:
                meth = c.methods[attr]
                decs = [d.split('.')[-1].split('(')[0] for d in meth.decorators()]
                if decs in (['property'], ['cached_property']):
                    call = ast.Call(func=ast.Name(id=attr, ctx=ast.Load()), args=[], keywords=[])
                    return self.apply(self.fn(meth.node, meth), [], {}, st, call, method_recv=inst)
                return self.made_from([inst], f'.{attr}')
            state = self.class_state(c, st)
            if attr in state:
                return state[attr]          # the object of the class itself: the same one for every instance
        return AV('u')

    def instantiate(self, call: ast.Call, args, kw, st: _St) -> AV | None:
        """`K(...)` for a plain class K of the repository: a new object, `__init__` interpreted on it"""
        mod = getattr(self.fi, 'module', None)
        if mod is None or not isinstance(call.func, (ast.Name, ast.Attribute)):
            return None
        cls = class_of(self.prog, mod, call.func)
        if cls is None or not self._plain_class(cls):
            return None
        inst = AV('o', ('inst', {}, self._class_key(cls)))
        for c in cls.mro():
            self.class_state(c, st)
        init = cls.find_method('__init__')
        if init is None:
            return inst if not args and not kw else None
        try:
            self.apply(self.fn(init.node, init), args, kw, st, call, method_recv=inst, strict=True)
        except _CannotEnter:
            return None
        return inst

    def call_value(self, f: AV, args, st, call) -> AV:
        """f(*args) for a function value: a local function / lambda, or an item / attribute getter"""
        if f.k == 'f':
            return self.apply(f, list(args), {}, st, call)
        if f.k == 'o' and isinstance(f.v, tuple) and f.v[0] == 'getter' and len(args) == 1:
            x = args[0]
            if x.k == 'r' and isinstance(f.v[1], str) and f.v[1] in x.v:
                return x.v[f.v[1]]
            if x.k == 'r':
                x = AV('t', tuple(x.v.values()))
            if isinstance(f.v[1], int) and x.k in ('l', 't') and -len(x.v) <= f.v[1] < len(x.v):
                return x.v[f.v[1]]
        return self.unknown(list(args) + [f])

    def library(self, cn: str, recv, e: ast.Call, args, kw, st) -> AV | None:
        """the few library functions that only re-arrange values: numpy on one-dimensional arrays, itertools, operator"""
        root, _, last = cn.rpartition('.')
        dep = any(_deep(a) for a in args)

        def arr(v):
            q = _seq(v) if v.k in ('l', 't', 'a') else None
            return q if q is not None and all(x.k == 'c' for x in q) else None
        try:
            if root in ('np', 'numpy', 'np.ma', 'numpy.ma'):
                def given(pos):
                    """(present, element type | None) of the dtype argument: keyword `dtype`, or positional at pos"""
                    d = kw.get('dtype', args[pos] if pos is not None and len(args) > pos else None)
                    if d is None or (d.k == 'c' and d.v is None):
                        return False, None
                    return True, dt_code(d)

                def made(items, dt, why=''):
                    return AV('a', self.cast_items(items, dt, st, e, why), dep, None, dt)
                if last == 'dtype' and len(args) == 1 and not kw:
                    code = dt_code(args[0])
                    return AV('o', ('dtype', code), args[0].dep) if code is not None else None
                if last in _DT_NAMES and len(last) > 2 and len(args) == 1 and not kw:
                    # a scalar type called on a value / on an array: a conversion
                    if args[0].k == 'c' and isinstance(args[0].v, (bool, int, float)):
                        return AV('c', self.cast_items([args[0]], _DT_NAMES[last], st, e)[0].v, args[0].dep)
                    q = arr(args[0])
                    return made(q, _DT_NAMES[last]) if q is not None else None
                if last in ('asarray', 'array', 'ascontiguousarray', 'asanyarray', 'getdata', 'filled', 'copy', 'sort') and args:
                    q = arr(args[0])
                    if q is None:
                        return None
                    present, dt = given(1 if last in ('asarray', 'array', 'ascontiguousarray', 'asanyarray') else None)
                    if present and dt is None:
                        return None
                    if not present:
                        dt = dt_of(args[0])
                    if last == 'sort':
                        q = sorted(q, key=lambda x: x.v)
                    return AV('a', self.cast_items(q, dt, st, e), args[0].dep, None, dt)
                if last in ('concatenate', 'hstack') and args:
                    parts = _seq(args[0])
                    qs = [arr(x) for x in parts] if parts is not None else None
                    if qs is None or any(q is None for q in qs) or not qs:
                        return None
                    present, dt = given(None)
                    if present and dt is None:
                        return None
                    if not present:
                        dts = [dt_of(x) for x in parts]
                        if any(d is None for d in dts):
                            dt = None
                        else:
                            for d in dts:
                                dt = d if dt is None else dt_promote(dt, d)
                    why = '' if present or dt is None else \
                        f': the result type of its parts ({", ".join(dt_text(dt_of(x)) for x in parts)})'
                    return made([x for q in qs for x in q], dt, why)
                if last == 'append' and len(args) == 2:
                    a_, b_ = arr(args[0]), (arr(args[1]) if args[1].k != 'c' else [args[1]])
                    if a_ is None or b_ is None:
                        return None
                    d1, d2 = dt_of(args[0]), (dt_of(args[1]) if args[1].k != 'c' else dt_of_values([args[1]]))
                    dt = dt_promote(d1, d2) if d1 is not None and d2 is not None else None
                    return made(a_ + b_, dt, f': the result type of {dt_text(d1)} and {dt_text(d2)}' if dt else '')
                if last == 'argsort' and args:
                    q = arr(args[0])
                    if q is None:
                        return None
                    return AV('a', [AV('c', i, dep) for i in sorted(range(len(q)), key=lambda i: q[i].v)], dep, None, 'i8')
                if last == 'arange' and args and all(a.k == 'c' and isinstance(a.v, int) for a in args):
                    present, dt = given(None)
                    if present and dt is None:
                        return None
                    return made([AV('c', i, dep) for i in range(*(a.v for a in args))], dt if present else 'i8')
                if last == 'cumsum' and args:
                    q = arr(args[0])
                    if q is None:
                        return None
                    out, t = [], 0
                    for x in q:
                        t += x.v
                        out.append(AV('c', t, dep))
                    return AV('a', out, dep, None, dt_of(args[0]))
                if last in ('zeros', 'empty', 'ones') and args and args[0].k == 'c' and isinstance(args[0].v, int):
                    present, dt = given(1)
                    if present and dt is None:
                        return None
                    return AV('a', [AV('c', dt_cast(int(last == 'ones'), dt if present else 'f8'), dep) for _ in range(args[0].v)], dep, None,
                              dt if present else 'f8')                        # without dtype these are float64 arrays
                if last in ('zeros_like', 'empty_like', 'ones_like') and args and args[0].k == 'a':
                    present, dt = given(1)
                    if present and dt is None:
                        return None
                    dt = dt if present else dt_of(args[0])
                    return AV('a', [AV('c', dt_cast(int(last == 'ones_like'), dt), dep) for _ in args[0].v], dep, None, dt)
                if last == 'full' and len(args) >= 2 and args[0].k == 'c' and isinstance(args[0].v, int) and args[1].k == 'c':
                    present, dt = given(2)
                    if present and dt is None:
                        return None
                    return made([AV('c', args[1].v, dep) for _ in range(args[0].v)], dt if present else dt_of_values([args[1]]))
                if last == 'fromiter' and args:
                    q = arr(args[0])
                    present, dt = given(1)
                    if q is None or not present or dt is None:
                        return None
                    return made(list(q), dt)
                return None
            if cn in ('itertools.accumulate', 'accumulate') and args and len(args) == 1 and 'func' not in kw:
                q = arr(args[0])
                if q is None or not all(isinstance(x.v, (int, float)) for x in q):
                    return None
                out, t = [], None
                ini = kw.get('initial')
                if ini is not None and ini.k == 'c' and ini.v is not None:
                    t = ini.v
                    out.append(AV('c', t, dep))
                for x in q:
                    t = x.v if t is None else t + x.v
                    out.append(AV('c', t, dep))
                return AV('l', out, dep)
            if cn in ('itertools.chain', 'chain') and args:
                qs = [_seq(a) for a in args]
                return AV('l', [x for q in qs for x in q], dep) if all(q is not None for q in qs) else None
            if cn in ('itertools.chain.from_iterable', 'chain.from_iterable') and len(args) == 1:
                parts = _seq(args[0])
                qs = [_seq(x) for x in parts] if parts is not None else None
                return AV('l', [x for q in qs for x in q], dep) if qs is not None and all(q is not None for q in qs) else None
            if cn in ('operator.itemgetter', 'itemgetter', 'operator.attrgetter', 'attrgetter') and len(args) == 1 and args[0].k == 'c':
                return AV('o', ('getter', args[0].v))
            if isinstance(e.func, ast.Attribute) and last == 'enter_context' and len(args) == 1 and not kw:
                return args[0]              # ExitStack.enter_context(cm) gives what `with cm as x` gives
            if isinstance(e.func, ast.Attribute) and last == 'createVariable' and recv is not None and recv.k == 'o' \
                    and args and args[0].k == 'c' and isinstance(args[0].v, str):
                dt = dt_code(kw.get('datatype', args[1] if len(args) > 1 else AV('u')))
                st.flags.setdefault('vardt', {})[args[0].v] = dt
                return AV('o', ('var', args[0].v), recv.dep, recv.elem, dt)
        except (_Raised, TTUndecided):
            raise
        except Exception:
            return None
        return None

    def enterable(self, c: ast.Call):
        key = (id(c), id(self.fi.node), self.enter_helpers)
        if key not in self._ENT:
            self._ENT[key] = (c, self._enterable(c))       # (the node is kept so that its id stays unique)
        return self._ENT[key][1]

    def _enterable(self, c: ast.Call):
        if not self.enter_helpers:
            return None
        fi = self.fi
        try:
            callee = resolve_call(self.prog, fi, c)
        except Exception:
            callee = None
        if callee is None or callee.node is fi.node or callee.name == self.input_list_call:
            return None
        if not ((callee.name.startswith('_') and not callee.name.startswith('__')) or '<locals>' in callee.qualname):
            return None          # the public methods are the vocabulary (`TrajectoryStore.open`, `len(store)`)
        if any(isinstance(x, (ast.Yield, ast.YieldFrom, ast.Await)) for x in walk_no_nested(callee.node)):
            return None
        return callee

    def apply(self, f: AV, args, kw, st: _St, call, method_recv=None, strict=False):
        """value of calling a local function, a lambda or a repository helper on this path; the callee's own forks
        must agree (the statement-level pre-evaluation `precall` handles the ones that do not)"""
        try:
            outs = self.call_paths(f, args, kw, st, call, method_recv)
        except _CannotEnter as ex:
            if strict:
                raise
            return self.not_entered(f, args, kw, method_recv, call, ex)
        outs = [(s, c) for s, c in outs if not (c[0] == 'raise' and not c[1])]
        if not outs:
            raise _Raised(False, call)
        kinds = {c[0] for _, c in outs}
        if kinds == {'raise'}:
            raise _Raised(all(c[1] for _, c in outs), call)
        if kinds == {'return'}:
            vals = [c[1] for _, c in outs]
            if len(vals) == 1 or all(_eq(vals[0], v) is True and v.k == 'c' for v in vals[1:]):
                back = outs[0][0].outer
                if back is not None and back is not st:
                    st.env, st.cache = back.env, back.cache
                st.flags = outs[0][0].flags
                return vals[0]
        raise TTUndecided(f'the paths through {call_name(call)} disagree inside an expression')

    def not_entered(self, f: AV, args, kw, recv, call, why) -> AV:
        """a helper that cannot be interpreted is an opaque computation - unless it can refuse or looks at identifiers"""
        node = self.funcs[f.v][0]
        if any(isinstance(x, (ast.Raise, ast.Assert)) for x in ast.walk(node)) or _mentions_id(node):
            raise TTUndecided(str(why))
        return self.made_from(([recv] if recv is not None else []) + list(args) + list(kw.values()), f'{call_name(call)}()')

    def call_paths(self, f: AV, args, kw, st: _St, call, method_recv=None):
        node, fi = self.funcs[f.v]
        if self.depth >= 4:
            raise TTUndecided('call depth')
        a = node.args
        pos = [x.arg for x in a.posonlyargs + a.args]
        decs = [d.split('.')[-1] for d in fi.decorators()] if fi is not None else []
        if fi is not None and pos and pos[0] in ('self', 'cls') and 'staticmethod' not in decs:
            first = pos[0]
            pos = pos[1:]
        else:
            first = None
        env = dict(st.env) if fi is None else {}
        if first is not None:
            env[first] = method_recv if method_recv is not None else AV('o', first)
        defaults = dict(zip(reversed([x.arg for x in a.posonlyargs + a.args]), reversed(a.defaults)))
        for k, d in zip(a.kwonlyargs, a.kw_defaults):
            if d is not None:
                defaults[k.arg] = d
        if len(args) > len(pos) and not a.vararg:
            raise _CannotEnter(f'call shape of {call_name(call)}')
        bound = dict(zip(pos, args))
        if a.vararg:
            bound[a.vararg.arg] = AV('t', tuple(args[len(pos):]))
        extra = {}
        names = pos + [x.arg for x in a.kwonlyargs]
        for k, v in kw.items():
            if k in bound:
                raise _CannotEnter(f'call shape of {call_name(call)}')
            if k not in names:
                if not a.kwarg:
                    raise _CannotEnter(f'call shape of {call_name(call)}')
                extra[k] = v
                continue
            bound[k] = v
        if a.kwarg:
            bound[a.kwarg.arg] = AV('d', extra)
        for p in names:
            if p not in bound:
                if p not in defaults:
                    raise _CannotEnter(f'call shape of {call_name(call)}')
                d = defaults[p]
                if isinstance(d, (ast.List, ast.Dict, ast.Set, ast.Call, ast.ListComp, ast.DictComp, ast.SetComp)):
                    # a default value is evaluated once, when the function is defined: every call that leaves the parameter
                    # out gets the same object
                    kept = st.flags.setdefault('defaults', {})
                    key = (getattr(d, 'lineno', 0), getattr(d, 'col_offset', 0), p, node.name if hasattr(node, 'name') else '')
                    if key not in kept:
                        kept[key] = self.ev(d, _St())
                        st.flags.setdefault('defaults0', {})[key] = repr(kept[key])
                    bound[p] = kept[key]
                else:
                    bound[p] = self.ev(d, _St())
        env.update(bound)
        sub = _St(env, {}, st.under, st.flags, st)
        self.depth += 1
        old_fi = self.fi
        if fi is not None:
            self.fi = fi
        try:
            if isinstance(node, ast.Lambda):
                try:
                    outs = [(sub, ('return', self.ev(node.body, sub)))]
                except _Raised as r:
                    outs = [(sub, ('raise', r.known, r.node))]
            else:
                outs = []
                for s, c in self.block(node.body, [sub]):
                    if c is None:
                        c = ('return', AV('c', None))
                    if c[0] in ('break', 'continue'):
                        continue
                    outs.append((s, c))
        finally:
            self.depth -= 1
            self.fi = old_fi
        return outs

    def method(self, r: AV, name: str, args, kw, st, call=None):
        try:
            if r.k == 'a':
                if name in ('tolist',) and not args:
                    return AV('l', list(r.v), r.dep)
                if name == 'astype' and (args or 'dtype' in kw):
                    dt = dt_code(kw.get('dtype', args[0] if args else None))
                    if dt is None or not all(x.k == 'c' for x in r.v):
                        return None
                    return AV('a', self.cast_items(r.v, dt, st, call if call is not None else '.astype()'), r.dep, None, dt)
                if name in ('copy', 'filled', 'compressed', 'flatten', 'ravel'):
                    return AV('a', list(r.v), r.dep, None, r.dt)
                if name == 'view' and not args and not kw:
                    return AV('a', list(r.v), r.dep, None, r.dt)
                if name == 'argsort' and not args and all(x.k == 'c' for x in r.v):
                    return AV('a', [AV('c', i, r.dep) for i in sorted(range(len(r.v)), key=lambda i: r.v[i].v)], r.dep, None, 'i8')
                return None
            if r.k == 'l' and name == 'sort' and not args and set(kw) <= {'key', 'reverse'}:
                q = self._sorted(r.v, kw, st, None)
                if q is None:
                    r.k, r.v, r.dep = 'u', None, _deep(r)
                else:
                    r.v[:] = q
                return AV('c', None)
            if r.k == 'l':
                if name == 'append' and len(args) == 1:
                    r.v.append(args[0])
                    return AV('c', None)
                if name == 'extend' and len(args) == 1:
                    s = _seq(args[0])
                    if s is None:
                        r.k, r.v, r.dep = 'u', None, r.dep or _deep(args[0]) or any(_deep(x) for x in r.v or [])
                        return AV('c', None)
                    r.v.extend(s)
                    return AV('c', None)
                if name == 'insert' and len(args) == 2 and args[0].k == 'c':
                    r.v.insert(args[0].v, args[1])
                    return AV('c', None)
                if name == 'copy' and not args:
                    return AV('l', list(r.v), r.dep)
                if name == 'reverse' and not args:
                    r.v.reverse()
                    return AV('c', None)
                if name == 'pop' and len(args) <= 1 and all(a.k == 'c' for a in args) and r.v:
                    return r.v.pop(*[a.v for a in args])
                if name == 'clear':
                    r.v.clear()
                    return AV('c', None)
            if r.k in ('l', 't'):
                if name == 'count' and len(args) == 1:
                    rs = [_eq(x, args[0]) for x in r.v]
                    dep = _deep(r) or _deep(args[0])
                    return AV('u', None, dep) if any(x is None for x in rs) else AV('c', sum(1 for x in rs if x), dep)
                if name == 'index' and len(args) == 1:
                    for i, x in enumerate(r.v):
                        q = _eq(x, args[0])
                        if q is None:
                            break
                        if q:
                            return AV('c', i, _deep(r) or _deep(args[0]))
                    return AV('u', None, _deep(r) or _deep(args[0]))
            if r.k == 's':
                if name == 'add' and len(args) == 1 and args[0].k == 'c':
                    r.v.add(args[0].v)
                    r.dep = r.dep or args[0].dep
                    return AV('c', None)
                if name in ('update', 'union', 'intersection', 'difference', 'symmetric_difference', 'issubset', 'issuperset',
                            'isdisjoint') and len(args) == 1:
                    s = _seq(args[0])
                    if s is not None and all(x.k == 'c' for x in s):
                        o = {x.v for x in s}
                        dep = r.dep or _deep(args[0])
                        if name == 'update':
                            r.v |= o
                            r.dep = dep
                            return AV('c', None)
                        res = getattr(r.v, name)(o)
                        return AV('c', res, dep) if isinstance(res, bool) else AV('s', res, dep)
                if name == 'discard' and len(args) == 1 and args[0].k == 'c':
                    r.v.discard(args[0].v)
                    return AV('c', None)
                if name == 'copy':
                    return AV('s', set(r.v), r.dep)
            if r.k == 'd':
                if name == 'get' and args and args[0].k == 'c':
                    return r.v.get(args[0].v, args[1] if len(args) > 1 else AV('c', None))
                if name == 'keys' and not args:
                    return AV('s', set(r.v), r.dep)
                if name == 'values' and not args:
                    return AV('l', list(r.v.values()), r.dep)
                if name == 'items' and not args:
                    return AV('l', [AV('t', (AV('c', k, r.dep), v)) for k, v in r.v.items()])
                if name == 'setdefault' and len(args) == 2 and args[0].k == 'c':
                    return r.v.setdefault(args[0].v, args[1])
                if name == 'update' and not args:
                    r.v.update(kw)
                    return AV('c', None)
                if name == 'copy':
                    return AV('d', dict(r.v), r.dep)
        except _Raised:
            raise
        except Exception:
            return None
        if name in MUTATING_METHODS and r.k in ('l', 's', 'd'):
            # an in-place change this interpreter does not model: the container is unknown from here on
            dep = _deep(r) or any(_deep(a) for a in args)
            r.k, r.v, r.dep = 'u', None, dep
            return AV('c', None)
        return None

    def _sorted(self, items, kw, st, call):
        """the items in ascending order of their (concrete) keys, or None"""
        rev = kw.get('reverse', AV('c', False))
        if rev.k != 'c':
            return None
        key = kw.get('key')
        keys = []
        for x in items:
            kv = x if key is None or (key.k == 'c' and key.v is None) else self.call_value(key, [x], st, call)
            py = _concrete(kv)
            if py is _NO:
                return None
            keys.append(py)
        try:
            order = sorted(range(len(items)), key=lambda i: keys[i], reverse=bool(rev.v))
        except TypeError:
            return None
        return [items[i] for i in order]

    def builtin(self, name: str, args, kw, st, call):
        A = args
        dep = any(_deep(a) for a in A) or any(_deep(v) for v in kw.values())
        try:
            if name in ('all', 'any') and len(A) == 1:
                s = _seq(A[0])
                if s is None:
                    return AV('u', None, dep)
                ts = [_truth(x) for x in s]
                st.used = st.used or dep
                if name == 'all':
                    r = False if any(t is False for t in ts) else (None if any(t is None for t in ts) else True)
                else:
                    r = True if any(t is True for t in ts) else (None if any(t is None for t in ts) else False)
                return AV('c', r, dep) if r is not None else AV('u', None, dep)
            if name == 'len' and len(A) == 1:
                if A[0].k == 'o' and A[0].v == 'store' and A[0].elem is not None and self.sizes is not None:
                    return AV('c', self.sizes[A[0].elem], True)
                return AV('c', len(A[0].v), dep) if A[0].k in ('l', 't', 's', 'd', 'a') else AV('u', None, dep)
            if name in ('list', 'tuple', 'iter') and len(A) <= 1:
                if not A:
                    return AV('l' if name != 'tuple' else 't', [] if name != 'tuple' else ())
                s = _seq(A[0])
                if s is None:
                    return AV('u', None, dep)
                return AV('t', tuple(s), A[0].dep) if name == 'tuple' else AV('l', list(s), A[0].dep)
            if name in ('set', 'frozenset') and len(A) <= 1:
                if not A:
                    return AV('s', set())
                s = _seq(A[0])
                if s is not None and all(_hashable(x) is not _NO for x in s):
                    return AV('s', {_hashable(x) for x in s}, dep)
                return self.made_from(A, 'set') if A[0].k == 'o' else AV('u', None, dep)
            if name == 'dict':
                if not A:
                    return AV('d', dict(kw))
                return AV('u', None, dep)
            if name == 'bool' and len(A) == 1:
                t = _truth(A[0])
                return AV('c', t, dep) if t is not None else AV('u', None, dep)
            if name == 'int' and len(A) == 1 and A[0].k == 'c' and isinstance(A[0].v, (bool, int, float)) and not kw:
                return AV('c', int(A[0].v), dep)
            if name == 'float' and len(A) == 1 and A[0].k == 'c' and isinstance(A[0].v, (bool, int, float)) and not kw:
                y = float(A[0].v)
                if y != A[0].v:
                    st.flags.setdefault('repr', []).append((getattr(call, 'lineno', 0), f'`{norm(call)[:70]}` holds its value as a float '
                                                            f'({A[0].v} becomes {y!r})'))
                return AV('c', y, dep)
            if name == 'sum' and 1 <= len(A) <= 2:
                s = _seq(A[0])
                start = A[1] if len(A) == 2 else kw.get('start', AV('c', 0))
                if s is not None and all(x.k == 'c' and isinstance(x.v, (bool, int, float)) for x in s + [start]):
                    return AV('c', sum((x.v for x in s), start.v), dep)
                return AV('u', None, dep)
            if name in ('min', 'max') and A:
                s = _seq(A[0]) if len(A) == 1 else list(A)
                if s and all(x.k == 'c' and x.v is not None for x in s) and not kw:
                    return AV('c', (min if name == 'min' else max)(x.v for x in s), dep)
                return AV('u', None, dep)
            if name == 'range' and 1 <= len(A) <= 3:
                if all(a.k == 'c' and isinstance(a.v, int) for a in A):
                    return AV('l', [AV('c', i, dep) for i in range(*(a.v for a in A))])
                return AV('u', None, dep)
            if name == 'enumerate' and A:
                s = _seq(A[0])
                start = A[1] if len(A) > 1 else kw.get('start', AV('c', 0))
                if s is not None and start.k == 'c':
                    return AV('l', [AV('t', (AV('c', i + start.v), x)) for i, x in enumerate(s)], A[0].dep)
                return AV('u', None, dep)
            if name == 'zip' and A:
                ss = [_seq(a) for a in A]
                if all(s is not None for s in ss):
                    return AV('l', [AV('t', tuple(xs)) for xs in zip(*ss)], any(a.dep for a in A))
                return AV('u', None, dep)
            if name == 'reversed' and len(A) == 1:
                s = _seq(A[0])
                return AV('l', s[::-1], A[0].dep) if s is not None else AV('u', None, dep)
            if name == 'sorted' and len(A) == 1:
                s = _seq(A[0])
                q = self._sorted(s, kw, st, call) if s is not None and set(kw) <= {'key', 'reverse'} else None
                return AV('l', q, A[0].dep) if q is not None else AV('u', None, dep)
            if name in ('map', 'filter') and len(A) == 2:
                s = _seq(A[1])
                getter = A[0].k == 'o' and isinstance(A[0].v, tuple) and A[0].v[0] == 'getter'
                if s is None or (A[0].k != 'f' and not getter and not (name == 'filter' and A[0].k == 'c' and A[0].v is None)):
                    return AV('u', None, dep)
                out = []
                for x in s:
                    r = x if A[0].k == 'c' else self.call_value(A[0], [x], st, call)
                    if name == 'map':
                        out.append(r)
                        continue
                    t = _truth(r)
                    if t is None:
                        return AV('u', None, dep or _deep(r))
                    if t:
                        out.append(x)
                return AV('l', out, A[1].dep)
            if name in ('getattr',) and 2 <= len(A) <= 3 and A[1].k == 'c' and isinstance(A[1].v, str):
                if _is_model(A[0]) and A[1].v in A[0].v[2] and A[1].v not in A[0].v[1]:
                    if len(A) == 3:
                        return A[2]
                    raise _Raised(False, call)        # AttributeError
                return self.attribute(A[0], A[1].v, st)
            if name == 'hasattr' and len(A) == 2 and A[1].k == 'c':
                if _is_model(A[0]) and A[1].v in A[0].v[2]:
                    return AV('c', A[1].v in A[0].v[1], True)
                return AV('u', None, dep or A[1].v in STORE_ATTRS)
            if name == 'isinstance':
                return AV('u', None, dep)
            if name == 'next' and A:
                return AV('u', None, dep)
            if name in ('print', 'repr', 'str', 'id', 'type', 'hash', 'format'):
                return self.made_from(A, name)
        except _Raised:
            raise
        except TTUndecided:
            raise
        except Exception:
            return AV('u', None, dep)
        return None

    # ---- statements ------------------------------------------------------------------------------------------
    def bind(self, t, v: AV, st: _St):
        if isinstance(t, ast.Name):
            st.env[t.id] = v
        elif isinstance(t, (ast.Tuple, ast.List)):
            s = _seq(v) if v.k in ('l', 't', 'r', 'a') else None
            plain = not any(isinstance(x, ast.Starred) for x in t.elts)
            if s is not None and plain and len(s) == len(t.elts):
                for x, y in zip(t.elts, s):
                    self.bind(x, y if not v.dep else AV(y.k, y.v, True, y.elem, y.dt), st)
            else:
                for x in t.elts:
                    x = x.value if isinstance(x, ast.Starred) else x
                    self.bind(x, self.made_from([v], 'component') if v.k == 'o' else self.unknown([v]), st)
        elif isinstance(t, ast.Subscript):
            b = self.ev(t.value, st)
            if b.k == 'o' and isinstance(b.v, tuple) and b.v[0] == 'var':
                sl = t.slice
                whole = (isinstance(sl, ast.Slice) and sl.lower is None and sl.upper is None and sl.step is None) \
                    or (isinstance(sl, ast.Constant) and sl.value is Ellipsis)
                dt = b.dt if b.dt is not None else st.flags.get('vardt', {}).get(b.v[1])
                if whole and dt is not None and v.k in ('l', 't', 'a') and all(x.k == 'c' for x in v.v):
                    # the variable holds what is assigned to it as its own element type
                    v = AV(v.k, self.cast_items(list(v.v), dt, st, t, f' (the type of the variable {b.v[1]!r})'), v.dep, None,
                           dt if v.k == 'a' else None)
                    if v.k == 't':
                        v.v = tuple(v.v)
                st.flags.setdefault('writes', []).append((b.v[1], v if whole else AV('u', None, True)))
                return
            i = self.ev(t.slice, st) if not isinstance(t.slice, ast.Slice) else AV('u')
            if b.k == 'd' and i.k == 'c':
                b.v[i.v] = v
            elif b.k == 'l' and i.k == 'c' and isinstance(i.v, int) and -len(b.v) <= i.v < len(b.v):
                b.v[i.v] = v
            elif b.k in ('l', 'd'):
                b.k, b.v, b.dep = 'u', None, _deep(b) or _deep(v) or _deep(i)
        elif isinstance(t, ast.Attribute):
            b = self.ev(t.value, st)
            if _is_model(b) or _is_inst(b):
                b.v[1][t.attr] = v
        elif isinstance(t, ast.Starred):
            self.bind(t.value, v, st)

    def block(self, stmts, states):
        """[(state, control)] with control None | ('return', value) | ('raise', known, node) | ('break',) | ('continue',)"""
        done = []
        live = list(states)
        for s in stmts:
            nxt = []
            for st in live:
                for st2, c in self.stmt(s, st):
                    if c is None:
                        nxt.append(st2)
                    else:
                        done.append((st2, c))
            live = nxt
            if len(live) + len(done) > self.cap:
                raise TTUndecided(f'more than {self.cap} paths')
            if not live:
                break
        return done + [(st, None) for st in live]

    def branch(self, test: AV, st: _St, what: str):
        """[(state, truth, forked)] - decided, or forked on an opaque test"""
        t = _truth(test)
        if t is not None:
            if _deep(test):
                st.used = True
            return [(st, t, False)]
        if _deep(test):
            raise TTUndecided(f'`{what[:70]}` depends on what was read from an input store in a way that cannot be evaluated')
        if _deep(test, 'elem'):
            self.foreign_elem = True        # an opaque test about one of the inputs (its path, …)
        a, b = st.fork(), st
        a.under += 1
        b.under += 1
        return [(a, True, True), (b, False, True)]

    def precall(self, exprs, st: _St):
        """evaluate the repository helpers called in the head of a statement first, one path per way through them;
        -> [(state, control)]"""
        calls = []
        for e in exprs:
            if e is None:
                continue
            for x in walk_no_nested(e, include_lambda=False):
                if isinstance(x, ast.Call) and not any(isinstance(a, (ast.ListComp, ast.SetComp, ast.DictComp, ast.GeneratorExp,
                                                                      ast.IfExp, ast.BoolOp)) for a in ancestors(x)
                                                       if a is not e and _within(a, e)):
                    calls.append(x)
        calls.sort(key=lambda c: (getattr(c, 'end_lineno', 0), getattr(c, 'end_col_offset', 0)))   # inner calls end first
        states = [(st, None)]
        for c in calls:
            nxt = []
            for s, ctl in states:
                if ctl is not None:
                    nxt.append((s, ctl))
                    continue
                tgt = self._enter_target(c, s)
                if tgt is None:
                    nxt.append((s, None))
                    continue
                f, args, kw, recv = tgt
                try:
                    paths = self.call_paths(f, args, kw, s, c, recv)
                except _CannotEnter as ex:
                    s.cache[id(c)] = self.not_entered(f, args, kw, recv, c, ex)
                    nxt.append((s, None))
                    continue
                for s2, c2 in paths:
                    if c2[0] == 'raise':
                        nxt.append((self._back(s, s2), c2))
                    else:
                        s3 = self._back(s, s2)
                        s3.cache[id(c)] = c2[1]
                        nxt.append((s3, None))
            states = nxt
        return states

    def _back(self, caller: _St, callee: _St) -> _St:
        """the caller's path after a call: its own variables (objects changed in place by the callee are shared),
        the callee's bookkeeping"""
        back = callee.outer if callee.outer is not None else caller
        back.under, back.flags = callee.under, callee.flags
        return back

    def _enter_target(self, c: ast.Call, st: _St):
        if id(c) in st.cache or call_name(c).split('.')[-1] == self.input_list_call:
            return None
        if any(isinstance(a, ast.Starred) for a in c.args) or any(k.arg is None for k in c.keywords):
            return None
        self.note_call(c, st)
        local = isinstance(c.func, ast.Name) and c.func.id in st.env and st.env[c.func.id].k == 'f'
        if local:
            f = st.env[c.func.id]
            if isinstance(self.funcs[f.v][0], ast.Lambda):
                return None
        else:
            callee = self.enterable(c)
            if callee is None:
                return None
            f = self.fn(callee.node, callee)
        recv = self.ev(c.func.value, st) if isinstance(c.func, ast.Attribute) else None
        args = [self.ev(a, st) for a in c.args]
        kw = {k.arg: self.ev(k.value, st) for k in c.keywords}
        parts = ([recv] if recv is not None else []) + args + list(kw.values())
        if not local and not any(_deep(p) or _deep(p, 'elem') for p in parts):
            st.cache[id(c)] = self.made_from(parts, f'{call_name(c)}()')      # nothing about the inputs goes in
            return None
        return f, args, kw, recv

    def heads(self, s):
        if isinstance(s, (ast.Assign, ast.AnnAssign, ast.AugAssign, ast.Return, ast.Expr)):
            return [s.value]
        if isinstance(s, (ast.If, ast.While, ast.Assert)):
            return [s.test]
        if isinstance(s, (ast.For, ast.AsyncFor)):
            return [s.iter]
        if isinstance(s, (ast.With, ast.AsyncWith)):
            return [i.context_expr for i in s.items]
        if isinstance(s, ast.Raise):
            return [s.exc]
        return []

    def stmt(self, s, st: _St):
        out = []
        try:
            pre = self.precall(self.heads(s), st) if not isinstance(s, ast.While) else [(st, None)]
        except _Raised as r:
            return [(st, ('raise', r.known and st.under == 0, r.node))]
        for st1, ctl in pre:
            if ctl is not None:
                out.append((st1, ('raise', ctl[1] and st1.under == 0, ctl[2]) if ctl[0] == 'raise' else ctl))
                continue
            try:
                res = self.stmt1(s, st1)
            except _Raised as r:
                res = [(st1, ('raise', r.known and st1.under == 0, r.node))]
            for s2, _ in res:
                s2.cache = {}
            out += res
        return out

    def stmt1(self, s, st: _St):
        if isinstance(s, (ast.Assign, ast.AnnAssign)):
            if s.value is None:
                return [(st, None)]
            v = self.ev(s.value, st)
            for t in (s.targets if isinstance(s, ast.Assign) else [s.target]):
                self.bind(t, v, st)
            return [(st, None)]
        if isinstance(s, ast.AugAssign):
            v = self.ev(s.value, st)
            if isinstance(s.target, ast.Name):
                cur = st.env.get(s.target.id, AV('u'))
                if cur.k == 'l' and isinstance(s.op, ast.Add):
                    q = _seq(v)
                    if q is not None:
                        cur.v.extend(q)
                    else:
                        cur.k, cur.v, cur.dep = 'u', None, _deep(cur) or _deep(v)
                    return [(st, None)]
                if cur.k == 's' and v.k == 's' and isinstance(s.op, (ast.BitOr, ast.BitAnd, ast.Sub, ast.BitXor)):
                    f = {ast.BitOr: set.__or__, ast.BitAnd: set.__and__, ast.Sub: set.__sub__, ast.BitXor: set.__xor__}[type(s.op)]
                    st.env[s.target.id] = AV('s', f(cur.v, v.v), cur.dep or v.dep)
                    return [(st, None)]
                st.env[s.target.id] = self._binop_values(s.op, cur, v, st, s)
            elif isinstance(s.target, ast.Attribute) and _is_inst(self.ev(s.target.value, st)):
                # `obj.a += v`: the object that `obj.a` finds (its own, or the one of the class) is changed in place if it is
                # a list, and the result becomes the instance's attribute
                b = self.ev(s.target.value, st)
                cur = self.inst_attribute(b, s.target.attr, st)
                if cur.k == 'l' and isinstance(s.op, ast.Add):
                    q = _seq(v)
                    if q is not None:
                        cur.v.extend(q)
                    else:
                        cur.k, cur.v, cur.dep = 'u', None, _deep(cur) or _deep(v)
                    b.v[1][s.target.attr] = cur
                else:
                    b.v[1][s.target.attr] = self._binop_values(s.op, cur, v, st, s)
            elif isinstance(s.target, ast.Subscript) and not isinstance(s.target.slice, ast.Slice):
                # `box[k] += v` on a concrete list / dictionary: the element is replaced by the combined value
                b, i = self.ev(s.target.value, st), self.ev(s.target.slice, st)
                cur = None
                if i.k == 'c' and not isinstance(i.v, bool):
                    if b.k == 'l' and isinstance(i.v, int) and -len(b.v) <= i.v < len(b.v):
                        cur = b.v[i.v]
                    elif b.k == 'd' and i.v in b.v:
                        cur = b.v[i.v]
                if cur is not None and cur.k == 'c' and v.k == 'c':
                    b.v[i.v] = self._binop_values(s.op, cur, v, st, s)
                else:
                    self.bind(s.target, self.unknown([v]), st)
            else:
                self.bind(s.target, self.unknown([v]), st)
            return [(st, None)]
        if isinstance(s, ast.Expr):
            self.ev(s.value, st)
            return [(st, None)]
        if isinstance(s, ast.If):
            out = []
            for st2, t, forked in self.branch(self.ev(s.test, st), st, norm(s.test)):
                body = s.body if t else s.orelse
                res = self.block(body, [st2])
                if forked:
                    for s3, c in res:
                        if c is None or c[0] != 'raise':
                            s3.under -= 1        # past the join the path is no longer control-dependent on the test …
                            # … unless it left the other branch by an early exit; that is handled by `accepted` paths
                out += res
            return out
        if isinstance(s, (ast.For, ast.AsyncFor)):
            it = self.ev(s.iter, st)
            q = _seq(it)
            if q is None:
                return self._skip_loop(s, st, it)
            live, done = [st], []
            for x in q:
                nxt = []
                for s1 in live:
                    self.bind(s.target, x if not it.dep else AV(x.k, x.v, True, x.elem, x.dt), s1)
                    for s2, c in self.block(s.body, [s1]):
                        if c is None or c[0] == 'continue':
                            nxt.append(s2)
                        elif c[0] == 'break':
                            done.append((s2, ('broke',)))
                        else:
                            done.append((s2, c))
                live = nxt
                if len(live) + len(done) > self.cap:
                    raise TTUndecided(f'more than {self.cap} paths')
            out = []
            if s.orelse:
                out += self.block(s.orelse, live)
            else:
                out += [(x, None) for x in live]
            for s2, c in done:
                out.append((s2, None) if c[0] == 'broke' else (s2, c))
            return out
        if isinstance(s, ast.While):
            live, out = [st], []
            for _ in range(8):
                nxt = []
                for s1 in live:
                    tv = self.ev(s.test, s1)
                    t = _truth(tv)
                    if t is None:
                        out += self._skip_loop(s, s1, tv)
                        continue
                    if not t:
                        out.append((s1, None))
                        continue
                    for s2, c in self.block(s.body, [s1]):
                        if c is None or c[0] == 'continue':
                            nxt.append(s2)
                        elif c[0] == 'break':
                            out.append((s2, None))
                        else:
                            out.append((s2, c))
                live = nxt
                if not live:
                    break
            for s1 in live:
                out += self._skip_loop(s, s1, AV('u'))
            return out
        if isinstance(s, (ast.With, ast.AsyncWith)):
            managers = []
            for it in s.items:
                v = self.ev(it.context_expr, st)
                if _is_inst(v):
                    # a context manager of the repository: `__enter__` gives the value bound, `__exit__` runs when the body
                    # is left (here: on the paths that leave it without an exception)
                    ent, ext = self.inst_method(v, '__enter__'), self.inst_method(v, '__exit__')
                    if ent is None or ext is None:
                        raise TTUndecided(f'`with {norm(it.context_expr)[:50]}`: not a context manager that can be interpreted')
                    managers.append((f'__manager_{id(it.context_expr)}__', ext, it.context_expr))
                    st.env[managers[-1][0]] = v
                    v = self.apply(self.fn(ent.node, ent), [], {}, st, it.context_expr, method_recv=v)
                if it.optional_vars is not None:
                    self.bind(it.optional_vars, v, st)        # (`with Store.open(…) as ts`, `with open(…) as f`)
            res = self.block(s.body, [st])
            if not managers:
                return res
            out = []
            for s1, c in res:
                if c is not None and c[0] == 'raise':
                    out.append((s1, c))
                    continue
                for key, ext, node in reversed(managers):
                    self.apply(self.fn(ext.node, ext), [AV('c', None)] * 3, {}, s1, node, method_recv=s1.env[key])
                out.append((s1, c))
            return out
        if isinstance(s, ast.Try) or type(s).__name__ == 'TryStar':
            out = []
            for s1, c in self.block(s.body, [st]):
                if c is not None and c[0] == 'raise' and s.handlers:
                    exc = c[2].exc if isinstance(c[2], ast.Raise) and c[2].exc is not None else None
                    ename = call_name(exc).split('.')[-1] if isinstance(exc, ast.Call) else (norm(exc).split('.')[-1] if exc is not None else None)
                    caught = None
                    for h in s.handlers:
                        names = [] if h.type is None else [norm(x).split('.')[-1] for x in
                                                          (h.type.elts if isinstance(h.type, ast.Tuple) else [h.type])]
                        if h.type is None or 'Exception' in names or 'BaseException' in names or (ename and ename in names):
                            caught = h
                            break
                    if caught is not None:
                        if caught.name:
                            s1.env[caught.name] = AV('o', 'exception')
                        out += self.block(caught.body, [s1])
                        continue
                    if ename is None:
                        raise TTUndecided('re-raise inside try')
                if c is None and s.orelse:
                    out += self.block(s.orelse, [s1])
                else:
                    out.append((s1, c))
            if s.finalbody:
                fin = []
                for s1, c in out:
                    for s2, c2 in self.block(s.finalbody, [s1]):
                        fin.append((s2, c2 if c2 is not None else c))
                out = fin
            return out
        if isinstance(s, ast.Return):
            return [(st, ('return', self.ev(s.value, st) if s.value is not None else AV('c', None)))]
        if isinstance(s, ast.Raise):
            if s.exc is not None:
                self.ev(s.exc, st)
            return [(st, ('raise', st.under == 0, s))]
        if isinstance(s, ast.Assert):
            tv = self.ev(s.test, st)
            t = _truth(tv)
            if t is None and _deep(tv):
                raise TTUndecided(f'`assert {norm(s.test)[:60]}` depends on the inputs in a way that cannot be evaluated')
            if t is False:
                # an assertion is not a refusal (it documents an invariant and disappears under -O): the path goes on
                st.flags['asserts'] = st.flags.get('asserts', 0) + 1
            return [(st, None)]
        if isinstance(s, (ast.FunctionDef, ast.AsyncFunctionDef)):
            st.env[s.name] = self.fn(s)
            return [(st, None)]
        if isinstance(s, ast.ClassDef):
            st.env[s.name] = AV('o', s.name)
            return [(st, None)]
        if isinstance(s, ast.Delete):
            for t in s.targets:
                if isinstance(t, ast.Name):
                    st.env.pop(t.id, None)
                else:
                    self.bind(t, AV('u'), st)
            return [(st, None)]
        if isinstance(s, ast.Break):
            return [(st, ('break',))]
        if isinstance(s, ast.Continue):
            return [(st, ('continue',))]
        if isinstance(s, ast.Match):
            subj = self.ev(s.subject, st)
            if _deep(subj) or _mentions_id(s):
                raise TTUndecided('match statement over identifier information')
            out = []
            for c in s.cases:
                s1 = st.fork()
                s1.under += 1
                for x in ast.walk(c.pattern):
                    for f in ('name', 'rest'):
                        if isinstance(getattr(x, f, None), str):
                            s1.env[getattr(x, f)] = AV('u')
                res = self.block(c.body, [s1])
                for s3, cc in res:
                    if cc is None or cc[0] != 'raise':
                        s3.under -= 1
                out += res
            return out + [(st, None)]
        return [(st, None)]       # pass, import, global, nonlocal

    def _binop_values(self, op, a: AV, b: AV, st: _St | None = None, at=None) -> AV:
        n = ast.BinOp(left=ast.Name(id='__a__', ctx=ast.Load()), op=op, right=ast.Name(id='__b__', ctx=ast.Load()))
        if at is not None:
            ast.copy_location(n, at)
        return self.ev_BinOp(n, _St({'__a__': a, '__b__': b}, flags=st.flags if st is not None else None))

    def _skip_loop(self, s, st: _St, it: AV):
        """a loop whose iterations cannot be enumerated: everything it assigns is unknown afterwards"""
        dep = _deep(it) or _mentions_id(s)
        for x in walk_no_nested(s):
            if isinstance(x, ast.Name) and isinstance(x.ctx, ast.Store):
                st.env[x.id] = AV('u', None, dep)
            elif isinstance(x, ast.Call) and isinstance(x.func, ast.Attribute) and x.func.attr in MUTATING_METHODS \
                    and isinstance(x.func.value, ast.Name) and x.func.value.id in st.env:
                v = st.env[x.func.value.id]
                if v.k in ('l', 's', 'd'):
                    v.k, v.v, v.dep = 'u', None, True if dep else _deep(v)
            elif isinstance(x, ast.AugAssign) and isinstance(x.target, ast.Name) and x.target.id in st.env:
                st.env[x.target.id] = AV('u', None, dep)
        if any(isinstance(x, ast.Raise) for x in walk_no_nested(s)) and dep:
            raise TTUndecided('a loop that raises cannot be enumerated')
        return [(st, None)]

    # ---- driver -----------------------------------------------------------------------------------------------
    def run(self, list_param: str | None, keep_flags: bool = False, bindings: dict | None = None, carry: dict | None = None):
        """carry: the record (`flags`) of a path of an earlier run - what lives as long as the process (the values bound in
        class bodies, the default values of parameters) is taken over from it: this run is a later call in the same process"""
        node = self.fi.node
        a = node.args
        env = {}
        pos = [x.arg for x in a.posonlyargs + a.args]
        defaults = dict(zip(reversed(pos), reversed(a.defaults)))
        for k, d in zip(a.kwonlyargs, a.kw_defaults):
            if d is not None:
                defaults[k.arg] = d
        inputs = self.inputs()
        for p in pos + [x.arg for x in a.kwonlyargs]:
            if bindings and p in bindings:
                env[p] = bindings[p]
            elif p == list_param:
                env[p] = inputs
            elif p in defaults:
                env[p] = self.ev(defaults[p], _St())
            else:
                env[p] = AV('o', p)
        env['__inputs__'] = inputs
        st0 = _St(env)
        if carry:
            kept = copy.deepcopy({k: carry[k] for k in PROCESS_STATE if k in carry})
            st0.flags.update(kept)
        outs = self.block(node.body, [st0])
        res = []
        for st, c in outs:
            if c is not None and c[0] == 'raise':
                if c[1]:
                    res.append(('refused', c[2], st.used, st.flags['built'], st.flags['asserts'], st.flags if keep_flags else None, st.env if keep_flags else None))
                # else: a refusal for a reason this table does not vary (dropped)
            else:
                res.append(('accepted', None, st.used, st.flags['built'], st.flags['asserts'], st.flags if keep_flags else None, st.env if keep_flags else None))
        return res


def _within(a: ast.AST, root: ast.AST) -> bool:
    return any(x is a for x in ast.walk(root))


def _mentions_id(e: ast.AST) -> bool:
    return any(isinstance(x, ast.Attribute) and x.attr in STORE_ATTRS for x in ast.walk(e)) or \
        any(isinstance(x, ast.Constant) and x.value in STORE_ATTRS for x in ast.walk(e))


_TABLES: dict = {}


def refusal_tables(prog, m, max_n: int = 3) -> dict:
    """Interpret merge for every short sequence of inputs.
    -> {'mixed' | 'built' | 'fieldsets': (verdict, text, line)}; verdict True / False / None (undecided, with the reason).
    mixed: every sequence of up to max_n inputs that mixes identified and unidentified stores reaches a raise.
    built: the merged index is built for every uniformly identified sequence and for no unidentified one.
    fieldsets: every sequence of up to max_n inputs whose field-set names are not all the same reaches a raise (names
    drawn from {base}, {base, x}, {base, y}: a subset, a superset, and two different sets of the same size)."""
    import itertools
    key = id(prog)
    if key in _TABLES and _TABLES[key][0] is prog:
        return _TABLES[key][1]
    mg = m.func('TrajectoryStore.merge')
    chk = _check_fn(m)
    chk_name = chk.name if chk is not None else '<none>'
    builder = m.func('TrajectoryStore._create_merged_store_index')
    line0 = mg.node.lineno
    list_param = None
    lst = _list_param(chk) if chk is not None else None
    for c in walk_no_nested(mg.node):
        if isinstance(c, ast.Call) and call_name(c).split('.')[-1] == chk_name and lst is not None:
            b = _bind_call(chk, c)
            if b is not None and isinstance(b.get(lst), ast.Name) and b[lst].id in mg.params:
                list_param = b[lst].id
    if list_param is None:
        list_param = _list_param(mg)

    seen_foreign = [False]

    def interpret(identified, fieldsets=None):
        tt = TruthTable(prog, mg, identified, chk_name, builder.name, fieldsets=fieldsets)
        try:
            res = tt.run(list_param)
            seen_foreign[0] = seen_foreign[0] or tt.foreign_elem
            return res, None
        except TTUndecided as ex:
            return None, str(ex)
        except _Raised:
            return None, 'an exception escaped the interpretation'
        except RecursionError:
            return None, 'recursion'

    def line_of(attrs):
        first = next((x for x in walk_no_nested(mg.node) if isinstance(x, ast.Attribute) and x.attr in attrs), None)
        return first.lineno if first is not None else line0

    def table(cases, show, is_uniform, what, describe=None, reported=()):
        """-> (verdict, text, line), accepted uniform results, wrongly refused uniform cases [(case, raise node)];
        reported: raise statements that another table has already shown to refuse valid inputs (a uniform case refused
        there is that table's finding, not one of this table)"""
        n_paths, consulted, where, accepted, asserts, uniform, wrong = 0, False, None, [], 0, [], []
        for case in cases:
            res, why = interpret(*case)
            if why is not None:
                return (None, f'{show(case)}: {why}', line0), [], []
            n_paths += len(res)
            consulted = consulted or any(r[2] for r in res)
            kinds = {r[0] for r in res}
            if not res:
                return (None, f'{show(case)}: every path of the interpretation is lost to a refusal the model does not vary', line0), [], []
            if is_uniform(case):
                if 'accepted' not in kinds:
                    # every path that the model follows to its end reaches a raise of merge whose tests had known values
                    # (a raise behind an opaque test is dropped, not counted): a valid list is refused
                    nodes = [r[1] for r in res]
                    if all(isinstance(x, ast.Raise) and _within(x, mg.node) for x in nodes):
                        if not all(any(x is y for y in reported) for x in nodes):
                            wrong.append((case, nodes[0]))
                        continue
                    return (None, f'the interpretation refuses the uniform inputs {show(case)} (or loses every path): '
                                  f'model not faithful', line0), [], []
                uniform.append((case, [r for r in res if r[0] == 'accepted']))
                continue
            if kinds == {'refused'}:
                if all(any(r[1] is y for y in reported) for r in res):
                    return (None, f'{show(case)} is refused only where valid inputs are refused too', line0), [], []
                where = where or next(r[1] for r in res if r[0] == 'refused')
            elif 'refused' in kinds:
                return (None, f'{show(case)} is refused on some paths and accepted on others', line0), [], []
            else:
                accepted.append(case)
                asserts += sum(r[4] for r in res)
        n_bad = sum(1 for c in cases if not is_uniform(c))
        if wrong:
            at = wrong[0][1]
            msg = _strip(at.exc)[:90] if at.exc is not None else 'raise'
            some = ', '.join(show(c) for c, _ in wrong[:3])
            n_uni = sum(1 for c in cases if is_uniform(c))
            text = (f'merge refuses valid inputs: the inputs {some} - in which nothing differs - reach `raise {msg}` on every '
                    f'path ({len(wrong)} of the {n_uni} uniform sequences up to length {max_n} are refused)')
            if accepted:
                text += (f'; and the inputs {", ".join(show(c) for c in accepted[:3])} with {what} reach the end of merge without '
                         f'a raise ({len(accepted)} of {n_bad})' + (describe(accepted, wrong) if describe is not None else ''))
            elif describe is not None:
                text += describe(accepted, wrong)
            return (False, text, at.lineno), uniform, wrong
        if not accepted:
            return (True, f'every one of the {n_bad} sequences of up to {max_n} inputs with {what} reaches a raise '
                          f'({len(cases)} sequences, {n_paths} paths interpreted)', getattr(where, 'lineno', line0)), uniform, wrong
        if not consulted and seen_foreign[0]:
            return (None, f'nothing the model varies is tested, but refusals hang on opaque tests about the inputs: {what} may be '
                          f'tested in a way the model does not know', line0), uniform, wrong
        if not consulted:
            return (False, f'merge no longer refuses {what}: nothing on its paths tests it', line0), uniform, wrong
        some = ', '.join(show(c) for c in accepted[:3])
        return (False, f'merge no longer refuses every list with {what}: the inputs {some} reach the end of merge without a raise '
                       f'({len(accepted)} of the {n_bad} such sequences up to length {max_n} are accepted'
                       + (', a failing `assert` not counting as a refusal' if asserts else '') + ')'
                       + (describe(accepted, wrong) if describe is not None else ''), line0), uniform, wrong

    def done(**kw):
        _TABLES[key] = (prog, kw)
        return kw

    # ---- identified / unidentified
    def show_id(case):
        return '[' + ', '.join('identified' if x else 'unidentified' for x in case[0]) + ']'
    id_cases = [(seq,) for n in range(1, max_n + 1) for seq in itertools.product((True, False), repeat=n)]
    def describe_id(accepted, wrong):
        """what the accepted mixed sequences have in common: an input that takes no part in the comparison"""
        seqs = [c[0] for c in accepted]
        if not seqs:
            return ''
        for drop, name in ((0, 'first'), (-1, 'last')):
            rest = [q[1:] if drop == 0 else q[:-1] for q in seqs]
            if all(len(set(r)) == 1 for r in rest) and \
                    len(seqs) == sum(1 for (q,) in id_cases if len(set(q)) > 1 and len(set(q[1:] if drop == 0 else q[:-1])) == 1):
                return (f': exactly the sequences in which all inputs but the {name} agree are accepted - the {name} input takes '
                        f'no part in the consistency test' +
                        (' (a single input leaves nothing to test, and the test refuses that)' if wrong else ''))
        return ''
    mixed, uniform, wrong_id = table(id_cases, show_id, lambda c: len(set(c[0])) == 1, 'mixed identifier use', describe_id)
    if mixed[0] is False and not wrong_id:
        mixed = (False, mixed[1] + ': a store that is neither fully identified nor unidentified is produced', line_of(ID_ATTRS))
    sites = [c for c in walk_no_nested(mg.node) if isinstance(c, ast.Call) and call_name(c).split('.')[-1] == builder.name]
    built_line = sites[0].lineno if sites else line0
    if mixed[0] is None:
        built = (None, mixed[1], built_line)
    else:
        bad = und = None
        for (seq,), res in uniform:
            b = {r[3] > 0 for r in res}
            if len(b) == 2:
                und = und or f'for the inputs {show_id((seq,))} the merged index is built on some paths and not on others'
            elif b != {seq[0]}:
                bad = bad or (
                    f'for the inputs {show_id((seq,))} merge completes without building the merged index: the reader of a merged '
                    f'store only consults the merged index file, so such a store opens as not indexable and look-ups by flight '
                    f'identifier fail although every input had identifiers' if seq[0] else
                    f'for the inputs {show_id((seq,))} merge builds a merged index although no input has identifiers')
        built = (False, bad, built_line) if bad else (None, und, built_line) if und else \
            (True, f'built for every uniformly identified sequence of 1..{max_n} inputs and for no unidentified one '
                   f'({len(uniform)} sequences interpreted)', built_line)

    # ---- field sets
    A, B, C = frozenset({'base'}), frozenset({'base', 'x'}), frozenset({'base', 'y'})

    def show_fs(case):
        return '[' + ', '.join('{' + ', '.join(sorted(f)) + '}' for f in case[1]) + ']'
    fs_cases = [((True,) * n, seq) for n in range(1, max_n + 1) for seq in itertools.product((A, B, C), repeat=n)]

    def describe_fs(accepted, wrong=()):
        """what the accepted sequences have in common (which half of the comparison is missing)"""
        seqs = [c[1] for c in accepted]
        if not seqs:
            return ''
        if all(all(f <= q[0] for f in q) for q in seqs):
            return ('; in every accepted sequence the later inputs only lack field sets of the first input: the comparison is '
                    'one-sided - an input with an additional field set is refused, one with a missing field set is not')
        if all(all(f >= q[0] for f in q) for q in seqs):
            return ('; in every accepted sequence the later inputs only have field sets the first input lacks: the comparison is '
                    'one-sided - an input with a missing field set is refused, one with an additional field set is not')
        if all(len({len(f) for f in q}) == 1 for q in seqs):
            return '; in every accepted sequence the inputs have equally many field sets: their number is compared, not their names'
        return ''
    fieldsets, _, wrong_fs = table(fs_cases, show_fs, lambda c: len(set(c[1])) == 1, 'differing field sets', describe_fs,
                                   reported=[n for _, n in wrong_id])
    if fieldsets[0] is False and not wrong_fs:
        fieldsets = (False, fieldsets[1], line_of(('_nc',)))
    return done(mixed=mixed, built=built, fieldsets=fieldsets)


# ------------------------------------------------------------------------------------------------ the merged index
#
# The builder of the merged index is interpreted, with the same interpreter, on model stores: every tuple of up to
# three parts with 1, 2 or 3 trajectories each (exhaustive within these bounds, 39 tuples), every trajectory with its
# own flight identifier, the per-part index tables as `_reindex` writes them (identifiers ascending, local positions in
# the same order).  What the builder stores into the two variables of the merged index must be: the identifiers in
# ascending order, and next to each identifier the position of its trajectory in the merged store, i.e. in the
# concatenation of the parts in the order in which they were given.

WIDE = 2 ** 53


def _model_parts(sizes, wide: bool = False):
    """-> (per part: (ids ascending, local positions), {identifier: position in the concatenation});
    wide: identifiers that only a 64-bit integer holds exactly (odd numbers above 2**53: no float64, no int32)"""
    total = sum(sizes)
    ids = [(g * 5 + 3) % 11 for g in range(total)]            # distinct for total <= 11, not monotone in g
    if wide:
        ids = [WIDE + 2 * x + 1 for x in ids]
    tables, where, g = [], {}, 0
    for n in sizes:
        part = [(ids[g + i], i) for i in range(n)]
        for fid, i in part:
            where[fid] = g + i
        part.sort()
        tables.append(([f for f, _ in part], [i for _, i in part]))
        g += n
    return tables, where


_MERGED: dict = {}


def merged_index_table(ctx, prog, m, max_parts: int = 3, max_size: int = 3):
    """-> (verdict, text, line); None = undecided"""
    if id(prog) in _MERGED and _MERGED[id(prog)][0] is prog:
        return _MERGED[id(prog)][1]
    try:
        r = _merged_index_table(ctx, prog, m, max_parts, max_size)
    except Exception as ex:        # the interpreter must never turn into a verdict
        if type(ex).__name__ == 'AnalysisError':
            raise
        r = (None, f'internal: {type(ex).__name__}: {ex}', m.func('TrajectoryStore._create_merged_store_index').node.lineno)
    _MERGED[id(prog)] = (prog, r)
    return r


def _merged_index_table(ctx, prog, m, max_parts, max_size):
    import itertools
    builder = m.func('TrajectoryStore._create_merged_store_index')
    line0 = builder.node.lineno
    _, walk = builder_walk(ctx, prog, m, 'C09-R5')
    srcs = sorted({w[1].src.split(' ', 1)[1] for w in walk if isinstance(w[1], Seq)})
    if len(srcs) != 1:
        return None, 'the list of inputs of the index builder is not one of its parameters', line0
    n_runs = n_again = 0
    # what the builder is handed per input: the input itself, or what merge makes of it (a record of its name and its
    # length, ...) - the element of the argument of merge's call, evaluated by the interpreter on the model inputs
    handed = _builder_elem(ctx, prog, m, srcs[0])
    # first with small identifiers (order and offsets; readable counterexamples), then with identifiers that only the
    # 64-bit integer type holds exactly (the values must reach the index unchanged: no float, no narrower integer)
    for wide in (False, True):
        for n in range(1, max_parts + 1):
            for sizes in itertools.product(range(1, max_size + 1), repeat=n):
                if wide and n == max_parts and len(set(sizes)) > 1 and sorted(sizes) != list(range(1, n + 1)):
                    continue
                tables, where = _model_parts(sizes, wide)
                tt = TruthTable(prog, builder, (True,) * n, '<none>', None)
                tt.sizes, tt.index_tables = list(sizes), tables
                try:
                    given = None
                    if handed is not None:
                        given = {srcs[0]: AV('l', [tt.ev(handed, _St({ELEM: AV('o', f'input {k}', False, k)})) for k in range(n)])}
                    res = tt.run(srcs[0], keep_flags=True, bindings=given)
                except TTUndecided as ex:
                    return None, f'parts of sizes {sizes}: {ex}', line0
                except (_Raised, RecursionError):
                    return None, f'parts of sizes {sizes}: an exception escaped the interpretation', line0
                done = [r for r in res if r[0] == 'accepted']
                if not done or len(done) != len(res):
                    return None, f'parts of sizes {sizes}: the builder does not complete on every path', line0
                n_runs += 1
                for r in done:
                    v, text = _check_index_writes(r[5], where, f'for parts of sizes {sizes} (in the order given)')
                    if v is False and 'records position' in text:
                        text += ': the offset of a part is not the number of trajectories in the parts before it'
                    if v is not True:
                        return v, text, _repr_line(r[5]) or line0
                # a merge is not the only one of its process: what the builder keeps outside its own call (values bound in a
                # class body, default values of parameters) is still there when it is called again
                kept = next((r[5] for r in done if _kept_state(r[5])), None)
                if kept is not None and not wide and n_again < 6:
                    n_again += 1
                    try:
                        given = None
                        if handed is not None:
                            given = {srcs[0]: AV('l', [tt.ev(handed, _St({ELEM: AV('o', f'input {k}', False, k)})) for k in range(n)])}
                        res = tt.run(srcs[0], keep_flags=True, bindings=given, carry=kept)
                    except TTUndecided as ex:
                        return None, f'parts of sizes {sizes}, second call in the same process: {ex}', line0
                    except (_Raised, RecursionError):
                        return None, f'parts of sizes {sizes}, second call in the same process: an exception escaped', line0
                    again = [r for r in res if r[0] == 'accepted']
                    if not again or len(again) != len(res):
                        return None, f'parts of sizes {sizes}: a second call of the builder does not complete on every path', line0
                    for r in again:
                        v, text = _check_index_writes(r[5], where, f'for parts of sizes {sizes}, when an index has been built '
                                                                   f'before in the same process (for parts of the same sizes),')
                        if v is not True:
                            names, ln = _changed_state(prog, kept)
                            if v is False and names:
                                text += (f': the first index built in a process is right, every later one is not - the builder keeps '
                                         f'state between calls in {names}, which is one object for all calls (bound once, when the '
                                         f'class / function is defined) and is changed in place; it belongs into the instance '
                                         f'(`__init__`) / the call')
                            return v, text, ln or line0
    return True, (f'for every tuple of up to {max_parts} parts with 1..{max_size} trajectories each ({n_runs} runs, with small '
                  f'identifiers and with identifiers above 2**53) the stored index maps every identifier, unchanged, to the position '
                  f'of its trajectory in the concatenation of the parts'), line0


def _kept_state(flags) -> bool:
    """does the record of a path hold mutable values that outlive the call (class attributes, parameter defaults)?"""
    flags = flags or {}
    return any(v.k in ('l', 's', 'd', 'u') for attrs in flags.get('classes', {}).values() for v in attrs.values()) or \
        any(v.k in ('l', 's', 'd', 'u') for v in flags.get('defaults', {}).values())


def _changed_state(prog, flags):
    """-> (text naming the class attributes / parameter defaults whose value at the end of the path is not the one they
    were bound to, line of the first)"""
    names, line = [], 0
    for key, attrs in (flags or {}).get('classes', {}).items():
        rel, q = key
        before = flags.get('classes0', {}).get(key, {})
        for a, v in attrs.items():
            if repr(v) != before.get(a):
                names.append(f'the class attribute `{q}.{a}`')
                if not line:
                    try:
                        cls = prog.module(rel).classes[q]
                        line = next((b.lineno for b in cls.node.body if isinstance(b, (ast.Assign, ast.AnnAssign)) and
                                     a in [n for t in (b.targets if isinstance(b, ast.Assign) else [b.target])
                                           for n in assigned_names(t)]), 0)
                    except Exception:
                        line = 0
    for key, v in (flags or {}).get('defaults', {}).items():
        if repr(v) != flags.get('defaults0', {}).get(key):
            names.append(f'the default value of parameter `{key[2]}` of `{key[3]}`')
            line = line or key[0]
    return ', '.join(names[:4]), line


def _builder_elem(ctx, prog, m, pname: str):
    """what merge hands the index builder for one input, as an expression over ELEM (the checked input): the element of the
    order-preserving image that is the argument for the builder's list parameter `pname` (`parts` with
    `parts.append(Part(name=p.name, ntrajs=len(TrajectoryStore.open(p))))` -> that record).  None when it is the input
    itself, or when the call sites do not agree / the argument is not an image (rule_index_walk reports on that)"""
    mg, mprov, builder, calls = _builder_calls(ctx, prog, m, 'C09-R5')
    elems = {}
    for h in calls:
        bound = _bind_call(builder, h.node)
        if bound is None or pname not in bound:
            return None
        arg = h.ev(bound[pname])
        while isinstance(arg, ast.Call) and call_name(arg) in ('sorted', 'reversed', 'list', 'tuple') and arg.args:
            arg = arg.args[0]            # what an element is does not depend on the order (the order: rule_index_walk)
        ms = mprov.seq(arg)
        if not isinstance(ms, Seq):
            return None
        elems[canon(ms.elem)] = ms.elem
    if len(elems) != 1:
        return None
    e = next(iter(elems.values()))
    return None if canon(e) == ELEM else e


def rule_merged_index(ctx, prog, m, rule):
    """the offsets of the merged index: by bounded interpretation of the builder; when that is not decided, by the
    shape rule of C08 (`rule_offsets`)"""
    builder = m.func('TrajectoryStore._create_merged_store_index')
    verdict, text, line = merged_index_table(ctx, prog, m)
    if verdict is None:
        from .c08 import _index_writers, narrowing_steps, rule_offsets
        ctx.note(f'{rule}: bounded interpretation of the index builder not decided ({text}); shape rule used')
        # whatever the form: a construct on the way of the stored identifiers that does not hold 64-bit integers
        for st_, v_ in _index_writers(prog, builder).get('flight_id', []):
            for x, why in narrowing_steps(v_)[:1]:
                ctx.ob(rule, builder, f'identifiers stored unchanged: {norm(x)[:60]}', False,
                       f'on their way into the merged index the identifiers pass through `{norm(x)[:60]}` ({why}), which does not hold '
                       'every 64-bit identifier exactly: such an identifier cannot be looked up in the merged store',
                       line=getattr(x, 'lineno', st_.lineno))
        rule_offsets(ctx, m, rule=rule)
        return
    ctx.ob(rule, builder, 'merged index maps each identifier to the position of its trajectory in the merged store', verdict,
           text, line=line)


# ------------------------------------------------------------------------------------------------ add: all or none
#
# `add` is interpreted for every combination of "identifier use of the store" (not fixed yet / identified / unidentified)
# and "the trajectory" (has no flight_id field / has the field set to None / has an identifier).  The store and the
# trajectory are model objects: `self.indexable` and the `flight_id` attribute are known, every other attribute and every
# call is opaque (a refusal that hangs on one of those is somebody else's).  Required: a raise exactly when the use is
# fixed and differs from the trajectory's; the first addition fixes the use; a later one leaves it alone.

def add_identifier_table(prog, m):
    """-> (verdict, text, line); None = undecided"""
    add = m.func('TrajectoryStore.add')
    line0 = add.node.lineno
    if len(add.params) < 2:
        return None, 'signature of add', line0
    self_p, traj_p = add.params[0], add.params[1]
    first = next((x for x in walk_no_nested(add.node) if isinstance(x, ast.Attribute) and x.attr == 'indexable'), None)
    line = first.lineno if first is not None else line0
    names = {None: 'whose identifier use is not fixed yet', True: 'of identified trajectories', False: 'of unidentified trajectories'}
    kinds = {'absent': 'without a flight_id field', 'none': 'whose flight_id is None', 'set': 'with a flight identifier'}
    n_paths = 0
    for use in (None, True, False):
        for kind in ('absent', 'none', 'set'):
            has = kind == 'set'
            store = AV('o', ('model', {'indexable': AV('c', use, True)}, {'indexable'}))
            attrs = {} if kind == 'absent' else {'flight_id': AV('c', None if kind == 'none' else 4711, True)}
            traj = AV('o', ('model', attrs, {'flight_id'}))
            tt = TruthTable(prog, add, (), '<none>', None)
            tt.enter_helpers = False
            try:
                res = tt.run(None, keep_flags=True, bindings={self_p: store, traj_p: traj})
            except TTUndecided as ex:
                return None, f'a store {names[use]}, a trajectory {kinds[kind]}: {ex}', line0
            except (_Raised, RecursionError):
                return None, 'an exception escaped the interpretation', line0
            if not res:
                return None, f'a store {names[use]}, a trajectory {kinds[kind]}: every path is lost', line0
            n_paths += len(res)
            refused = [r for r in res if r[0] == 'refused']
            accepted = [r for r in res if r[0] == 'accepted']
            want_refusal = use is not None and has != use
            if want_refusal and accepted:
                return False, (f'a store {names[use]} accepts a trajectory {kinds[kind]}'
                               + (' on some paths: the identifier check only runs under a further condition, which is '
                                  'session-local state (e.g. the cache is empty at the start of an append session)' if refused else '')
                               + ': add accepts a trajectory whose identifier use differs from the store, which breaks '
                                 '"fully identified or not at all"'), line
            if not want_refusal and refused:
                return False, f'a store {names[use]} refuses a trajectory {kinds[kind]}', getattr(refused[0][1], 'lineno', line)
            for r in accepted:
                fin = r[6][self_p].v[1].get('indexable') if _is_model(r[6].get(self_p, AV('u'))) else None
                want = has if use is None else use
                if fin is None or fin.k != 'c' or fin.v is not want or (fin.v is None):
                    return False, (f'after adding a trajectory {kinds[kind]} to a store {names[use]} the identifier use of the store is '
                                   f'`{fin.v if fin is not None and fin.k == "c" else "?"}`, expected `{want}`: '
                                   + ('indexable is not fixed by the first addition' if use is None else
                                      'a later addition changes the identifier use of the store')), line
    return True, (f'a raise exactly when the identifier use of the store is fixed and differs from the trajectory\'s; the first '
                  f'addition fixes it (9 combinations, {n_paths} paths interpreted)'), line


def _check_index_writes(flags, where, what):
    """the last stores into the two index variables map every identifier (ascending) to its position -> (verdict, text)"""
    last = {}
    for k, v in flags.get('writes', []):
        last[k] = v
    if set(last) != {'flight_id', 'trajectory_index'}:
        return None, f'stores into the index variables not recognised (found {sorted(last)})'
    F, T = _concrete(last['flight_id']), _concrete(last['trajectory_index'])
    if last['flight_id'].k not in ('l', 'a', 't') or last['trajectory_index'].k not in ('l', 'a', 't') or F is _NO or T is _NO:
        return None, f'{what}: what is stored into the index variables could not be evaluated'
    F, T = list(F), list(T)
    lost = sorted(set(where) - {f for f in F if isinstance(f, (int, float))})
    if lost and len(F) == len(T) == len(where) and (flags.get('repr') or any(isinstance(f, float) for f in F)):
        got = sorted(set(F) - set(where))
        notes = flags.get('repr') or []
        how = '; '.join(f'line {ln}: {tx}' for ln, tx in notes[:2]) if notes else 'the values are stored as floats'
        return False, (f'{what} the identifier {lost[0]} is not in the index, which holds {got[0]!r} in its place: the flight '
                       f'identifiers do not reach the index variable unchanged - they pass through a representation that does not hold '
                       f'every 64-bit identifier exactly ({how}); the look-up of such an identifier finds nothing, or another flight')
    if len(F) != len(T) or sorted(F) != sorted(where):
        return False, f'{what} the index holds the identifiers {F} next to the positions {T}: not one entry per trajectory'
    if F != sorted(F):
        return False, f'{what} the identifiers are stored as {F}: not in ascending order, while the look-up bisects'
    bad = [(f, t, where[f]) for f, t in zip(F, T) if where[f] != t]
    if bad:
        f, t, w = bad[0]
        return False, (f'{what} the trajectory with identifier {f} is at position {w}, but the index records position {t} for it '
                       f'({len(bad)} of {len(F)} entries are wrong)')
    return True, ''


def _repr_line(flags):
    """line of the first conversion that changed a value on this path, if any"""
    return next((ln for ln, _ in (flags or {}).get('repr', []) if ln), None)


_REINDEX: dict = {}


def reindex_table(prog, m, max_parts: int = 3, max_size: int = 3):
    """`_reindex` interpreted on a model store (identified, stale, with files) whose base field set lives in up to
    max_parts files with 0..max_size trajectories each: what it stores into the two index variables maps every identifier
    (ascending) to the position of its trajectory in the store.  -> (verdict, text, line); None = undecided"""
    import itertools
    if id(prog) in _REINDEX and _REINDEX[id(prog)][0] is prog:
        return _REINDEX[id(prog)][1]
    fn = m.func('TrajectoryStore._reindex')
    line0 = fn.node.lineno

    def done(r):
        _REINDEX[id(prog)] = (prog, r)
        return r
    n_runs = 0
    for wide, n in [(w, k) for w in (False, True) for k in range(1, max_parts + 1)]:
        for sizes in itertools.product(range(0, max_size + 1), repeat=n):
            if sum(sizes) > 9 or sum(sizes) == 0:
                continue
            if wide and n == max_parts and len(set(sizes)) > 1 and sorted(sizes) != list(range(n)):
                continue
            _, where = _model_parts(sizes, wide)
            ids = sorted(where, key=lambda f: where[f])
            groups, g = [], 0
            for k, sz in enumerate(sizes):
                arr = AV('a', [AV('c', x, True) for x in ids[g:g + sz]], True, None, ID_DT)
                groups.append(AV('o', ('model', {'variables': AV('d', {'flight_id': arr}, True)}, {'variables'})))
                g += sz
            files = AV('o', ('model', {'groups': AV('o', ('anykey', AV('l', groups)))}, {'groups'}))
            store = AV('o', ('model', {'indexable': AV('c', True), 'index_stale': AV('c', True), 'nc_linked': AV('c', True),
                                      '_write_enabled': AV('c', True), '_nc': AV('o', ('anykey', files)),
                                      'index_group': AV('o', 'index group of the store')},
                             {'indexable', 'index_stale', 'nc_linked', '_nc', 'index_group'}))
            tt = TruthTable(prog, fn, (), '<none>', None)
            tt.enter_helpers = False
            try:
                res = tt.run(None, keep_flags=True, bindings={fn.params[0]: store})
            except TTUndecided as ex:
                return done((None, f'files of sizes {sizes}: {ex}', line0))
            except (_Raised, RecursionError):
                return done((None, f'files of sizes {sizes}: an exception escaped the interpretation', line0))
            acc = [r for r in res if r[0] == 'accepted']
            if not acc or len(acc) != len(res):
                return done((None, f'files of sizes {sizes}: _reindex does not complete on every path', line0))
            n_runs += 1
            for r in acc:
                v, text = _check_index_writes(r[5], where, f'for a store whose files hold {sizes} trajectories')
                if v is not True:
                    return done((v, text, _repr_line(r[5]) or line0))
    return done((True, f'for every store of up to {max_parts} files with 0..{max_size} trajectories each ({n_runs} runs, with small '
                       f'identifiers and with identifiers above 2**53) the stored index maps every identifier, unchanged and in '
                       f'ascending order, to the position of its trajectory', line0))
