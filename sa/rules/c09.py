"""C09 — a merged store equals the concatenation of its inputs.

R1  order preservation (dataflow): the list returned by _check_merge_arguments
    is iterated unchanged by the metadata loop, the relocation loop and the
    merged-index builder; _open_merged_store derives file order, datasets,
    dimensions, groups and the cumulative size table from metadata['stores']
    through order-preserving comprehensions only.
R2  refusals present: differing field sets and mixed identifier use raise (their
    position before any file-system effect is C10-R2).
R3  locate arithmetic: bisect_left(size_index, index + 1) (or the equivalent
    bisect_right(size_index, index)), bound check before use, local index
    relative to the located file.
R6  the merged index is built under exactly the condition "every input is
    identified" (the reader of a merged store consults nothing else).
R4  the metadata records, per input, the file name under which it is moved
    and the order of `stores` is that of the loop.
"""

from __future__ import annotations

import ast

from ..astutil import first_stmt, last_stmt  # noqa: F401
from ..astutil import (call_name, calls_in, guards_of, kwarg, norm, single_def_value, stmt_of,
                       stores_to, walk_no_nested)
from ..loader import dotted_name

STORE = 'trajectories/store.py'
ORDER_BREAKERS = {'sorted', 'set', 'reversed', 'frozenset', 'dict', 'random.shuffle', 'random.sample'}


def order_preserving(e: ast.expr, src: set[str], func: ast.AST, depth=0) -> tuple[bool, str]:
    """Is e an order-preserving image of (an expression whose text is in) src?"""
    if depth > 16:
        return False, 'derivation too deep'
    txt = norm(e)
    if txt in src:
        return True, txt
    if isinstance(e, ast.Name):
        d = single_def_value(func, e.id)
        if d is None:
            return False, f'{e.id} has no single definition'
        return order_preserving(d, src, func, depth + 1)
    if isinstance(e, ast.ListComp) and len(e.generators) == 1 and not e.generators[0].ifs:
        return order_preserving(e.generators[0].iter, src, func, depth + 1)
    if isinstance(e, ast.Call):
        cn = call_name(e)
        if cn in ('list', 'tuple', 'itertools.accumulate', 'accumulate', 'enumerate') and e.args:
            return order_preserving(e.args[0], src, func, depth + 1)
        if cn.endswith('.get') and e.args and isinstance(e.func, ast.Attribute):
            # metadata.get('stores', []) ~ metadata['stores']
            k = e.args[0]
            alt = f"{norm(e.func.value)}[{norm(k)}]"
            if alt in src:
                return True, alt
        if cn in ORDER_BREAKERS:
            return False, f'{cn}() does not preserve the given order'
    if isinstance(e, ast.Subscript) and isinstance(e.slice, ast.Slice):
        return False, 'slice drops or reorders elements'
    return False, f'unrecognised derivation {txt[:60]}'


def run(ctx):
    prog = ctx.prog
    m = prog.module(STORE)
    mg = m.func('TrajectoryStore.merge')
    chk = m.func('TrajectoryStore._check_merge_arguments')

    # R1a: _check_merge_arguments returns the caller's list or an ascending expansion
    rets = [n for n in walk_no_nested(chk.node) if isinstance(n, ast.Return) and n.value is not None]
    for r in rets:
        ok = isinstance(r.value, ast.Name) and r.value.id == 'input_stores'
        ctx.ob('C09-R1', chk, f'return {norm(r.value)}', ok,
               'returns the input list' if ok else 'returns something other than the input list', line=r.lineno,
               nontrivial=False)
    for t, st, how in stores_to(chk.node):
        if isinstance(t, ast.Name) and t.id == 'input_stores':
            v = st.value
            ok = isinstance(v, ast.ListComp) and len(v.generators) == 1 and not v.generators[0].ifs \
                and isinstance(v.generators[0].iter, ast.Call) and call_name(v.generators[0].iter) == 'range'
            rng = v.generators[0].iter if ok else None
            ok = ok and len(rng.args) == 2 and norm(rng.args[0]) == 'input_stores_index_range[0]' \
                and norm(rng.args[1]) == 'input_stores_index_range[1] + 1'
            ctx.ob('C09-R1', chk, 'numbered pattern expands to the inclusive ascending range', ok,
                   norm(v)[:120] if ok else 'pattern expansion is not range(first, last + 1) in ascending order',
                   line=st.lineno)
    for c in calls_in(chk.node):
        if call_name(c).endswith(('.sort', '.reverse')) and 'input_stores' in norm(c.func):
            ctx.ob('C09-R1', chk, norm(c), False, 'the input list is reordered in place', line=c.lineno)

    # R1b: merge iterates that list unchanged
    d = [st for t, st, how in stores_to(mg.node) if isinstance(t, ast.Name) and t.id == 'input_stores']
    ok = len(d) == 1 and isinstance(d[0].value, ast.Call) and call_name(d[0].value).endswith('_check_merge_arguments')
    ctx.ob('C09-R1', mg, 'input list bound once from _check_merge_arguments', ok,
           norm(d[0])[:100] if ok else 'input_stores is rebound in merge', line=(d[0].lineno if d else mg.node.lineno))
    loops = [n for n in walk_no_nested(mg.node) if isinstance(n, ast.For)]
    role = {}
    for lp in loops:
        body = ' '.join(norm(s) for s in lp.body)
        if 'store_data.append' in body:
            role['metadata'] = lp
        if 'os.rename' in body or 'os.replace' in body:
            role['relocate'] = lp
    ctx.floor('C09-R1', len(role), 2, 'merge loops (metadata, relocation)')
    for what, lp in role.items():
        ok = isinstance(lp.iter, ast.Name) and lp.iter.id == 'input_stores'
        ctx.ob('C09-R1', mg, f'{what} loop iterates {norm(lp.iter)}', ok,
               'the list as given' if ok else f'the {what} loop visits the inputs in a different order or subset',
               line=lp.lineno)
    for c in calls_in(mg.node):
        if call_name(c).endswith('_create_merged_store_index'):
            ok = len(c.args) >= 2 and norm(c.args[1]) == 'input_stores'
            ctx.ob('C09-R1', mg, f'index builder receives {norm(c.args[1]) if len(c.args) > 1 else "?"}', ok,
                   'the list as given' if ok else 'the merged index is built over a different order', line=c.lineno)
    for c in calls_in(mg.node):
        if call_name(c).endswith(('.sort', '.reverse')) and ('input_stores' in norm(c.func) or 'store_data' in norm(c.func)):
            ctx.ob('C09-R1', mg, norm(c), False, 'list reordered in place', line=c.lineno)
    # R4 metadata content
    mloop = role['metadata']
    app = [c for s in mloop.body for c in calls_in(s) if call_name(c) == 'store_data.append']
    ok = False
    if app and isinstance(app[0].args[0], ast.Tuple) and len(app[0].args[0].elts) == 2:
        n0, n1 = app[0].args[0].elts
        ok = norm(n0).endswith('.name') and norm(n1).startswith('len(')
    ctx.ob('C09-R4', mg, f'store_data.append({norm(app[0].args[0]) if app else "?"})', ok,
           'records (file name, length) per input in loop order' if ok else 'metadata entry is not (name, length)',
           line=(app[0].lineno if app else mloop.lineno))
    rl = role['relocate']
    dest = [s for s in rl.body if isinstance(s, ast.Assign) and norm(s.targets[0]) == 'dest']
    ok = bool(dest) and norm(dest[0].value) in ('Path(output_store) / p.name',)
    ren = [c for s in rl.body for c in calls_in(s) if call_name(c) in ('os.rename', 'os.replace')]
    ok = ok and bool(ren) and norm(ren[0].args[1]) == 'dest'
    ctx.ob('C09-R4', mg, 'input moved to <output>/<its own name>', ok,
           'the name recorded in the metadata is the name it is moved to' if ok else
           'the relocation target differs from the name recorded in the metadata',
           line=(ren[0].lineno if ren else rl.lineno))
    datadef = [st for t, st, how in stores_to(mg.node) if isinstance(t, ast.Name) and t.id == 'data' and how == 'assign']
    ok = bool(datadef) and isinstance(datadef[0].value, ast.Call) and kwarg(datadef[0].value, 'stores') is not None \
        and norm(kwarg(datadef[0].value, 'stores')) == 'store_data'
    ctx.ob('C09-R4', mg, 'metadata stores=store_data', ok,
           'unchanged list' if ok else 'the metadata `stores` entry is not the list built by the loop',
           line=(datadef[0].lineno if datadef else mg.node.lineno), nontrivial=False)

    # R1c: _open_merged_store derivations
    om = m.func('TrajectoryStore._open_merged_store')
    src = {"metadata['stores']"}
    ncf = [c for c in calls_in(om.node) if call_name(c).endswith('NcFiles')]
    if len(ncf) != 1:
        ctx.undecided('C09-R1', om, 'NcFiles(...)', f'{len(ncf)} construction sites')
    for kw in ('path', 'dataset', 'traj_dim', 'traj_var', 'size_index'):
        v = kwarg(ncf[0], kw)
        if v is None:
            ctx.undecided('C09-R1', om, kw, 'not passed by keyword')
        ok, why = order_preserving(v, src, om.node)
        ctx.ob('C09-R1', om, f'{kw} = {norm(v)[:60]} follows metadata order', ok,
               f'order-preserving image of {why}' if ok else why, line=v.lineno)
    gv = kwarg(ncf[0], 'groups')
    gstores = [st for t, st, how in stores_to(om.node) if isinstance(t, ast.Subscript) and norm(t.value) == norm(gv)]
    for st in gstores:
        ok, why = order_preserving(st.value, src, om.node)
        ctx.ob('C09-R1', om, f'{norm(st.targets[0])} = {norm(st.value)[:50]} follows metadata order', ok,
               f'order-preserving image of {why}' if ok else why, line=st.lineno)
    sz = kwarg(ncf[0], 'size_index')
    ok = 'accumulate' in norm(sz) and 'len(' in norm(sz)
    ctx.ob('C09-R1', om, 'size table = running sum of per-file lengths', ok,
           norm(sz) if ok else 'size table is not the cumulative sum of the file lengths', line=sz.lineno)

    # R2 refusals present
    want = [('field sets differ', lambda t: 'fieldset_names !=' in t or '!= fieldset_names' in t),
            ('mixed identifier use', lambda t: 'indexable' in t and 'any(' in t)]
    for what, pred in want:
        hit = None
        for n in walk_no_nested(mg.node):
            if isinstance(n, ast.Raise) and any(pred(norm(t)) and pol for t, pol, _ in guards_of(n)):
                hit = n
        ctx.ob('C09-R2', mg, f'refusal: {what}', hit is not None,
               f'raise at line {hit.lineno}' if hit else f'merge no longer refuses when {what}',
               line=(hit.lineno if hit else mg.node.lineno), nontrivial=False)
    fsn = [st for t, st, how in stores_to(mg.node) if isinstance(t, ast.Name) and t.id == 'fieldset_names' and
           not (isinstance(st.value, ast.Constant))]
    ok = bool(fsn) and 'ts._nc' in norm(fsn[0].value) and any('fieldset_names is None' in norm(t) for t, _, _ in guards_of(fsn[0]))
    ctx.ob('C09-R2', mg, 'reference field sets taken from the first input only', ok,
           norm(fsn[0])[:80] if ok else 'the reference field-set name set is rebound on later inputs',
           line=(fsn[0].lineno if fsn else mg.node.lineno))

    # R3 locate arithmetic
    ld = m.func('TrajectoryStore._load_trajectory')
    bis = [c for c in calls_in(ld.node) if call_name(c).split('.')[-1] in ('bisect_left', 'bisect_right', 'bisect')]
    if len(bis) != 1:
        ctx.undecided('C09-R3', ld, 'bisect', f'{len(bis)} bisect calls')
    b = bis[0]
    idx = ld.params[1]
    fn = call_name(b).split('.')[-1]
    a1 = norm(b.args[1])
    good = (fn == 'bisect_left' and a1 in (f'{idx} + 1', f'1 + {idx}')) or (fn in ('bisect_right', 'bisect') and a1 == idx)
    bad = (fn == 'bisect_left' and a1 == idx) or (fn in ('bisect_right', 'bisect') and a1 in (f'{idx} + 1',))
    if not good and not bad:
        ctx.undecided('C09-R3', ld, norm(b), 'bisect form not recognised')
    ok = good and 'size_index' in norm(b.args[0])
    ctx.ob('C09-R3', ld, norm(b), ok,
           'first file whose cumulative count exceeds the index' if ok else
           'off by one: an index equal to a cumulative count is located in the wrong file', line=b.lineno)
    fvar = stmt_of(b).targets[0].id
    bound = None
    for n in walk_no_nested(ld.node):
        if isinstance(n, ast.If) and f'{fvar} >= len(' in norm(n.test) and 'size_index' in norm(n.test):
            if isinstance(first_stmt(n.body), (ast.Return, ast.Raise)):
                bound = n
    users = [n for n in walk_no_nested(ld.node) if isinstance(n, ast.Subscript) and norm(n.slice) == fvar]
    ok = bound is not None and all(u.lineno > bound.lineno for u in users)
    ctx.ob('C09-R3', ld, 'file index bounded before use', ok,
           f'`{norm(bound.test)}` exits before {len(users)} uses' if ok else
           'an index past the last file is used to subscript the file lists')
    gi = [st for t, st, how in stores_to(ld.node) if isinstance(t, ast.Name) and t.id == 'group_index'
          and any(isinstance(a, ast.If) and 'size_index' in norm(a.test) for a in _anc(st))]
    ok = False
    if gi:
        v = norm(gi[0].value)
        ok = v == f'{idx} - nc_files.size_index[{fvar}]' or \
            (f'size_index[{fvar} - 1]' in v and v.startswith(f'{idx} -'))
        if not ok and not v.startswith(f'{idx}'):
            pass
    ctx.ob('C09-R3', ld, f'local index = {norm(gi[0].value) if gi else "?"}', ok,
           'index relative to the located file (negative offset from its cumulative end, or minus the preceding count)'
           if ok else 'local index arithmetic does not select the record inside the located file',
           line=(gi[0].lineno if gi else ld.node.lineno))
    grp = [st for t, st, how in stores_to(ld.node) if isinstance(t, ast.Name) and t.id == 'group']
    ok = bool(grp) and norm(grp[0].value).endswith(f'[{fvar}]') and 'groups[fs_name]' in norm(grp[0].value)
    ctx.ob('C09-R3', ld, f'group = {norm(grp[0].value) if grp else "?"}', ok,
           'group of the located file' if ok else 'reads from a group of a different file',
           line=(grp[0].lineno if grp else ld.node.lineno))
    # R5 flight-identifier lookup across parts: the merged index offsets (shared with C08-R3)
    # R6: writer/reader agreement on the merged index: it is built exactly when the inputs are identified
    call_sites = [c for c in calls_in(mg.node) if call_name(c).endswith('_create_merged_store_index')]
    ctx.floor('C09-R6', len(call_sites), 1, 'merged-index creation sites in merge')
    for c in call_sites:
        gs = [(norm(t), pol) for t, pol, _ in guards_of(stmt_of(c))]
        ok = gs == [('indexable', True)]
        ctx.ob('C09-R6', mg, f'merged index built under {gs}', ok,
               'built for every identified merge (the reader looks for the merged index only)' if ok else
               ('the merged index is not built for every merge of identified stores: the reader of a merged store only '
                'consults the merged index file, so such a store opens as not indexable and look-ups by flight identifier '
                'fail although every input had identifiers'), line=c.lineno)
    from .c08 import rule_offsets
    rule_offsets(ctx, m, rule='C09-R5')
    ctx.assumptions += ['netCDF4 resolves a negative record index against the (static) dimension length of a read-only file']


def _anc(n):
    from ..astutil import ancestors
    return list(ancestors(n))
