"""C06 — the performance model reproduces its table and never extrapolates.

R1  reciprocal constants (constant folding over exact rationals): for every
    pair X_TO_Y / Y_TO_X in units.py the folded product is exactly 1 (this
    includes METERS_TO_FL · FL_TO_METERS).
R2  no extrapolation switch (zero-expected, positive control): every
    interpolation on the evaluate path is scipy `interpn` without
    bounds_error= / fill_value=; no clamping interpolation (np.interp) and no
    clip of the query state on the way.
R3  load-time validation present: the model's after-validator builds the
    PerformanceTable, whose __post_init__ reaches the mass-count check, the
    three coverage checks and the six FL-only checks, each ending in raise;
    nothing swallows them.
R4  symbolic masses 'min'/'max' mean the table's extreme masses.
R5  PTF -> table role agreement (T-ROLE): each generated row pairs
    ptf.<m>_mass with the columns of the same <m> where the phase record has
    them; PTFData.load converts each field with the conversion its unit
    demands and reads the columns in order; rows are skipped only for the
    documented reasons.
R6  phase selection and sub-table partition: CLIMB/CRUISE/DESCEND select the
    positive/zero/negative ROCD sub-table, the three filters partition the
    ROCD axis with one tolerance, altitude is converted with METERS_TO_FL.
R7  coordinate <-> value ordering agreement in the interpolator: value arrays
    are laid out in the order of the (sorted) coordinate arrays in both
    branches.
"""

from __future__ import annotations

import ast
import re
from fractions import Fraction

from ..algebra import module_constants
from ..astutil import (ancestors, call_name, calls_in, guards_of, kwarg, norm, single_def_value, stmt_of,
                       stores_to, walk_no_nested)
from ..resolve import closure

LEG = 'performance/models/legacy.py'
PTF = 'parsers/ptf_reader.py'
MK = 'commands/make_performance_model.py'
UNITS = 'units.py'


def rule_constants(ctx):
    m = ctx.prog.module(UNITS)
    consts = module_constants(m)
    names = [k for k in consts if re.fullmatch(r'[A-Z]+(_[A-Z]+)*_TO_[A-Z]+(_[A-Z]+)*', k)]
    pairs = 0
    for n in sorted(names):
        a, b = n.split('_TO_')
        inv = f'{b}_TO_{a}'
        if inv in consts and n < inv:
            pairs += 1
            prod = consts[n] * consts[inv]
            ok = prod == 1
            ctx.ob('C06-R1', (m.relpath, '<module>'), f'{n} · {inv} = {prod}', ok,
                   'exact reciprocals' if ok else
                   (f'{n} and {inv} are not reciprocal (product {float(prod):.12g}): a tabulated flight level '
                    'expressed in metres does not convert back to the table\'s level and is rejected / missed'),
                   line=next((s.lineno for s in m.tree.body if isinstance(s, ast.Assign) and norm(s.targets[0]) in (n, inv)), 0))
    ctx.floor('C06-R1', pairs, 3, 'reciprocal unit constant pairs')
    # FL is hundreds of feet
    for k, want in (('METERS_TO_FL', consts.get('METERS_TO_FEET', 0) / 100), ('FL_TO_METERS', 100 * consts.get('FEET_TO_METERS', 0))):
        ok = consts.get(k) == want
        ctx.ob('C06-R1', (m.relpath, '<module>'), f'{k} = {consts.get(k)}', ok,
               'one flight level is 100 ft' if ok else f'{k} is not derived from the foot (100 ft per FL)')
    ok = consts.get('FEET_TO_METERS') == Fraction('0.3048')
    ctx.ob('C06-R1', (m.relpath, '<module>'), f'FEET_TO_METERS = {consts.get("FEET_TO_METERS")}', ok,
           'international foot' if ok else 'foot length changed', nontrivial=False)
    ok = consts.get('FPM_TO_MPS') == Fraction('0.3048') / 60 and consts.get('MINUTES_TO_SECONDS') == 60
    ctx.ob('C06-R1', (m.relpath, '<module>'), 'FPM_TO_MPS = FEET_TO_METERS / 60', ok,
           'feet per minute to metres per second' if ok else 'FPM_TO_MPS is inconsistent with foot and minute', nontrivial=False)
    return consts


def rule_no_extrapolation(ctx):
    prog = ctx.prog
    m = prog.module(LEG)
    roots = [m.func('LegacyPerformanceModel.evaluate_impl'), m.func('PerformanceTable.interpolate'),
             m.func('Interpolator.__call__'), prog.func('performance/models/base.py', 'BasePerformanceModel.evaluate'),
             prog.func('performance/models/base.py', 'BasePerformanceModel._evaluate_checked')]
    fns = {f.qualname: f for f in closure(prog, roots) if f.file.endswith((LEG, 'models/base.py'))}
    n_interpn = 0
    for f in fns.values():
        for c in calls_in(f.node):
            cn = call_name(c)
            short = cn.split('.')[-1]
            if short == 'interpn':
                n_interpn += 1
                bad = [k.arg for k in c.keywords if k.arg in ('bounds_error', 'fill_value')]
                meth = kwarg(c, 'method')
                ok = not bad and (meth is None or (isinstance(meth, ast.Constant) and meth.value == 'linear'))
                ctx.ob('C06-R2', f, f'interpn(…{", " + ", ".join(bad) if bad else ""})', ok,
                       'bounds checking left at its default (raise outside the grid), linear' if ok else
                       f'{bad or "non-linear method"}: out-of-envelope states are extrapolated/filled instead of rejected',
                       line=c.lineno)
            elif short in ('interp', 'interp1d', 'clip', 'RegularGridInterpolator', 'griddata', 'searchsorted') \
                    and cn.split('.')[0] in ('np', 'numpy', 'scipy', 'interpolate', short):
                ctx.ob('C06-R2', f, f'{cn}(…) on the evaluate path', False,
                       f'{cn} clamps / does not reject values outside the table: a state outside the envelope '
                       'returns the edge row instead of being refused', line=c.lineno)
            elif short in ('min', 'max') and any(norm(a) in ('fl', 'mass', 'state.altitude') for a in c.args) \
                    and len(c.args) >= 2:
                ctx.ob('C06-R2', f, f'{norm(c)[:50]}', False, 'the query state is clamped into the table range', line=c.lineno)
    ctx.floor('C06-R2', n_interpn, 3, 'interpn calls on the evaluate path')
    ctl = ast.parse('interpn(xs, v, x, bounds_error=False, fill_value=None)').body[0].value
    ctx.control('C06-R2', any(k.arg == 'bounds_error' for k in ctl.keywords), 'embedded interpn(..., bounds_error=False) is recognised')
    ctl2 = ast.parse('np.interp(fl, fls, values)').body[0].value
    ctx.control('C06-R2', call_name(ctl2).split('.')[-1] == 'interp', 'embedded np.interp(...) is recognised')
    # all three outputs interpolated over the same coordinates with the same query
    ic = m.func('Interpolator.__call__')
    cs = [c for c in calls_in(ic.node) if call_name(c).split('.')[-1] == 'interpn']
    got = {}
    for c in cs:
        p = getattr(c, '_parent', None)
        while p is not None and not isinstance(p, ast.keyword):
            p = getattr(p, '_parent', None)
        if p is not None:
            got[p.arg] = (norm(c.args[0]), norm(c.args[1]), norm(c.args[2]))
    want = {'true_airspeed': ('self.xs', 'self.tas', 'x'), 'rate_of_climb': ('self.xs', 'self.rocd', 'x'),
            'fuel_flow': ('self.xs', 'self.fuel_flow', 'x')}
    for k, w in want.items():
        ok = got.get(k) == w
        ctx.ob('C06-R2', ic, f'{k} = interpn{got.get(k)}', ok, 'output interpolates its own table over the shared grid' if ok
               else f'{k} is interpolated from the wrong array / grid / query', line=ic.node.lineno)
    xd = [st for t, st, how in stores_to(ic.node) if isinstance(t, ast.Name) and t.id == 'x']
    ok = len(xd) == 2 and {norm(s.value) for s in xd} == {'(fl, mass)', 'np.array([fl])'}
    ctx.ob('C06-R2', ic, 'query point is (fl, mass) or [fl], unmodified', ok,
           'state passed through unchanged' if ok else 'the query point is altered before interpolation', nontrivial=False)


def rule_validation(ctx):
    prog = ctx.prog
    m = prog.module(LEG)
    vp = m.func('LegacyPerformanceModel.validate_pm')
    decs = vp.decorators()
    ok = any("model_validator(mode='after')" in d for d in decs) and any(
        call_name(c) == 'PerformanceTable.from_input' for c in calls_in(vp.node))
    ctx.ob('C06-R3', vp, 'model validation builds the performance table', ok,
           'after-validator constructs PerformanceTable' if ok else 'the table is no longer validated at load time')
    fi = m.func('PerformanceTable.from_input')
    ok = any(call_name(c) == 'cls' for c in calls_in(fi.node))
    ctx.ob('C06-R3', fi, 'from_input constructs through cls(...) (runs __post_init__)', ok, 'dataclass constructor', nontrivial=False)
    pi = m.func('PerformanceTable.__post_init__')
    helpers = {}
    for q in ('check_coverage', 'check_fl_only'):
        h = m.functions.get(f'PerformanceTable.__post_init__.<locals>.{q}')
        if h is None:
            ctx.undecided('C06-R3', pi, q, 'validation helper not found')
        raises = [n for n in walk_no_nested(h.node) if isinstance(n, ast.Raise)]
        guarded = [r for r in raises if any(isinstance(t, ast.Compare) and isinstance(t.ops[0], ast.NotEq) for t, _, _ in guards_of(r))]
        helpers[q] = bool(guarded)
        ctx.ob('C06-R3', h, f'{q} raises on mismatch', bool(guarded),
               'raise under a != comparison' if guarded else f'{q} no longer refuses an incomplete table')
    cov = [c for c in calls_in(pi.node) if call_name(c) == 'check_coverage']
    labels = sorted(norm(c.args[1]) for c in cov if len(c.args) > 1)
    ok = labels == ["'negative'", "'positive'", "'zero'"]
    ctx.ob('C06-R3', pi, f'coverage checked for {labels}', ok, 'all three phase sub-tables' if ok else
           'a phase sub-table is not checked for full FL × mass coverage')
    flo = sorted((norm(c.args[2]), norm(c.args[1])) for c in calls_in(pi.node) if call_name(c) == 'check_fl_only' and len(c.args) > 2)
    want = sorted([("'zero'", "'tas'"), ("'positive'", "'tas'"), ("'positive'", "'fuel_flow'"),
                   ("'negative'", "'tas'"), ("'negative'", "'fuel_flow'"), ("'negative'", "'rocd'")])
    ok = flo == want
    ctx.ob('C06-R3', pi, f'{len(flo)} FL-only checks', ok, 'the six documented FL-only dependencies' if ok else
           f'FL-only checks are {flo}')
    # each check is applied to the sub-table its label names
    sub = {'check_zero': "'zero'", 'check_pos': "'positive'", 'check_neg': "'negative'"}
    bad = [norm(c) for c in calls_in(pi.node) if call_name(c) in ('check_coverage', 'check_fl_only')
           and sub.get(norm(c.args[0])) != norm(c.args[-1])]
    ctx.ob('C06-R3', pi, 'each check runs on the sub-table its label names', not bad, 'consistent' if not bad else
           f'{bad[0]} checks a different sub-table than it reports')
    # every check runs for every table: each check call lies on every normal path through __post_init__
    from ..cfg import CFG
    gp = CFG(pi.node)
    domp = gp.dominators(edge_ok=lambda a, b, lab: lab != 'e')
    chk_nodes = [n for n in gp.nodes if n.stmt is not None and n.kind == 'stmt' and
                 any(call_name(c) in ('check_coverage', 'check_fl_only') for c in calls_in(n.stmt))]
    skipped = [n for n in chk_nodes if n.id not in domp.get(gp.exit, set())]
    early = [n for n in gp.nodes if n.kind == 'stmt' and isinstance(n.stmt, ast.Return)]
    ctx.ob('C06-R3', pi, f'all {len(chk_nodes)} grid checks run on every path through __post_init__', not skipped and bool(chk_nodes),
           'no early exit bypasses them' if not skipped else
           (f'`{skipped[0].text()[:50]}` (and {len(skipped) - 1} more) can be bypassed'
            + (f' by the early `return` at line {early[0].line}' if early else '')
            + ': some tables are accepted without the complete-grid / FL-only checks'),
           line=(early[0].line if early else pi.node.lineno))
    nm = [n for n in walk_no_nested(pi.node) if isinstance(n, ast.Raise) and any('n_mass_values' in norm(t) for t, _, _ in guards_of(n))]
    ctx.ob('C06-R3', pi, 'mass count check raises', bool(nm), 'len(mass) != n_mass_values → raise' if nm else
           'the number of mass values is no longer checked')
    tries = [n for f in (vp, fi, pi) for n in walk_no_nested(f.node) if isinstance(n, ast.Try)]
    ctx.ob('C06-R3', pi, 'no handler swallows the validation errors', not tries, 'no try/except on the load path' if not tries
           else 'a try/except on the load path can swallow the refusal')
    it = m.func('Interpolator.__init__')
    r = [n for n in walk_no_nested(it.node) if isinstance(n, ast.Raise)]
    ctx.ob('C06-R3', it, 'interpolator refuses duplicate (FL, mass) pairs', bool(r), 'raise present' if r else 'check removed', nontrivial=False)


def rule_masses(ctx):
    m = ctx.prog.module(LEG)
    ip = m.func('PerformanceTable.interpolate')
    got = {}
    for x in walk_no_nested(ip.node):
        if isinstance(x, ast.If) and isinstance(x.test, ast.Compare) and norm(x.test.left) == 'mass' \
                and isinstance(x.test.comparators[0], ast.Constant):
            for s in x.body:
                if isinstance(s, ast.Assign) and norm(s.targets[0]) == 'mass':
                    got[x.test.comparators[0].value] = norm(s.value)
    ok = got == {'min': 'min(self.mass)', 'max': 'max(self.mass)'}
    ctx.ob('C06-R4', ip, f"symbolic masses {got}", ok, "'min' → lowest table mass, 'max' → highest" if ok else
           'symbolic minimum/maximum mass do not mean the table extremes')
    fl = single_def_value(ip.node, 'fl')
    ok = fl is not None and norm(fl) == 'state.altitude * METERS_TO_FL'
    ctx.ob('C06-R6', ip, f'fl = {norm(fl) if fl is not None else "?"}', ok, 'altitude in metres converted with METERS_TO_FL' if ok else
           'altitude is converted to flight level with the wrong factor')
    r = [n for n in walk_no_nested(ip.node) if isinstance(n, ast.Return)]
    ok = len(r) == 1 and norm(r[0].value) == 'self._interpolators[rocd](fl, mass)'
    ctx.ob('C06-R6', ip, 'interpolator of the requested phase evaluated at (fl, mass)', ok, norm(r[0].value) if ok else
           'wrong interpolator or argument order')
    cache = [st for t, st, how in stores_to(ip.node) if isinstance(t, ast.Subscript) and norm(t.value) == 'self._interpolators']
    ok = len(cache) == 1 and norm(cache[0].targets[0].slice) == 'rocd' and norm(cache[0].value) == 'Interpolator(self.subset(rocd).df)' \
        and any(norm(t) == 'rocd not in self._interpolators' for t, _, _ in guards_of(cache[0]))
    ctx.ob('C06-R6', ip, 'interpolators cached per phase filter', ok, 'key = filter = subset argument' if ok else
           'phase interpolator cache key and the sub-table it was built from disagree')
    ev = m.func('LegacyPerformanceModel.evaluate_impl')
    pairs = {}
    for x in walk_no_nested(ev.node):
        if isinstance(x, ast.match_case) and isinstance(x.pattern, ast.MatchValue):
            for c in calls_in(x):
                if call_name(c).endswith('.interpolate'):
                    pairs[norm(x.pattern.value)] = norm(c.args[1])
    ok = pairs == {'SimpleFlightRules.CLIMB': 'ROCDFilter.POSITIVE', 'SimpleFlightRules.CRUISE': 'ROCDFilter.ZERO',
                   'SimpleFlightRules.DESCEND': 'ROCDFilter.NEGATIVE'}
    ctx.ob('C06-R6', ev, f'phase → sub-table {pairs}', ok, 'climb/cruise/descent use positive/zero/negative ROCD rows' if ok else
           'a flight phase evaluates the wrong sub-table')
    sb = m.func('PerformanceTable.subset')
    arms = {}
    for x in walk_no_nested(sb.node):
        if isinstance(x, ast.match_case) and isinstance(x.pattern, ast.MatchValue):
            arms[norm(x.pattern.value).split('.')[-1]] = ' '.join(norm(s) for s in x.body)
    ok = 'df_new.rocd < -self.ZERO_ROCD_TOL' in arms.get('NEGATIVE', '') and 'df_new.rocd > self.ZERO_ROCD_TOL' in arms.get('POSITIVE', '') \
        and 'df_new.rocd >= -self.ZERO_ROCD_TOL' in arms.get('ZERO', '') and 'df_new.rocd <= self.ZERO_ROCD_TOL' in arms.get('ZERO', '')
    ctx.ob('C06-R6', sb, 'sub-table filters partition the ROCD axis with one tolerance', ok,
           '< −tol | [−tol, tol] | > tol' if ok else 'the three ROCD filters overlap or leave a gap')


def rule_ptf(ctx):
    prog = ctx.prog
    mk = prog.module(MK)
    bt = mk.func('build_performance_table')
    pt = prog.module(PTF)
    cols = single_def_value(bt.node, 'cols')
    colnames = [e.value for e in cols.elts] if isinstance(cols, ast.List) else []
    ok = colnames == ['fl', 'mass', 'tas', 'rocd', 'fuel_flow']
    ctx.ob('C06-R5', bt, f'columns {colnames}', ok, 'fl, mass, tas, rocd, fuel_flow' if ok else 'column order changed', nontrivial=False)
    rec_fields = {'climb': set(pt.cls('ClimbPhaseData').annotated_fields()), 'cruise': set(pt.cls('CruisePhaseData').annotated_fields()),
                  'descent': set(pt.cls('DescentPhaseData').annotated_fields())}
    suffix_of_mass = {'low_mass': 'low', 'nominal_mass': 'nom', 'high_mass': 'high'}
    nrows = 0
    masses_per_phase = {}
    for lp in [n for n in walk_no_nested(bt.node) if isinstance(n, ast.For)]:
        phase = norm(lp.iter).split('.')[-1]
        for c in calls_in(lp):
            if call_name(c) == 'data.append' and isinstance(c.args[0], ast.List):
                row = c.args[0].elts
                nrows += 1
                if len(row) != len(colnames):
                    ctx.ob('C06-R5', bt, f'{phase} row has {len(row)} entries', False, 'row length differs from the column list', line=c.lineno)
                    continue
                mass_attr = norm(row[1]).split('.')[-1]
                msuf = suffix_of_mass.get(mass_attr)
                masses_per_phase.setdefault(phase, []).append(msuf)
                problems = []
                if norm(row[0]) != 'r.fl':
                    problems.append(f'fl column receives {norm(row[0])}')
                if norm(row[2]) != 'r.tas':
                    problems.append(f'tas column receives {norm(row[2])}')
                for pos, q in ((3, 'rocd'), (4, 'fuel_flow')):
                    v = row[pos]
                    if isinstance(v, ast.Constant):
                        if not (phase == 'cruise' and q == 'rocd' and v.value == 0.0):
                            problems.append(f'{q} column receives constant {v.value}')
                        continue
                    a = norm(v).split('.')[-1]
                    if not a.startswith(q):
                        problems.append(f'{q} column receives {norm(v)}')
                        continue
                    s = a[len(q) + 1:]
                    if s != msuf and f'{q}_{msuf}' in rec_fields.get(phase, set()):
                        problems.append(f'{mass_attr} row takes {a} although the {phase} record has {q}_{msuf}')
                ctx.ob('C06-R5', bt, f'{phase} row [{", ".join(norm(e) for e in row)}]', not problems,
                       'mass and mass-dependent columns agree' if not problems else '; '.join(problems), line=c.lineno)
    ctx.floor('C06-R5', nrows, 7, 'generated table rows')
    want = {'climb': ['low', 'nom', 'high'], 'cruise': ['low', 'nom', 'high'], 'descent': ['nom']}
    for ph, w in want.items():
        ok = sorted(masses_per_phase.get(ph, [])) == sorted(w)
        ctx.ob('C06-R5', bt, f'{ph} rows for masses {masses_per_phase.get(ph)}', ok, 'every PTF column of the phase is emitted once' if ok
               else f'{ph} rows are missing or duplicated for some mass')
    # loader conversions
    ld = pt.func('PTFData.load')
    conv = {'tas': ('*', 'KNOTS_TO_MPS'), 'rocd': ('*', 'FPM_TO_MPS'), 'fuel_flow': ('/', 'MINUTES_TO_SECONDS')}
    order = {'CruisePhaseData': ['tas', 'fuel_flow_low', 'fuel_flow_nom', 'fuel_flow_high'],
             'ClimbPhaseData': ['tas', 'rocd_low', 'rocd_nom', 'rocd_high', 'fuel_flow_nom'],
             'DescentPhaseData': ['tas', 'rocd_nom', 'fuel_flow_nom']}
    nconv = 0
    for c in calls_in(ld.node):
        cn = call_name(c)
        if cn in order:
            for k in c.keywords:
                if k.arg == 'fl':
                    ok = norm(k.value) == 'fl'
                    ctx.ob('C06-R5', ld, f'{cn}.fl = {norm(k.value)}', ok, 'row flight level' if ok else 'flight level of the row is altered', line=k.value.lineno, nontrivial=False)
                    continue
                q = next(x for x in conv if k.arg.startswith(x))
                op, const = conv[q]
                v = k.value
                neg = False
                okc = isinstance(v, ast.BinOp) and norm(v.right) == const and \
                    ((op == '*' and isinstance(v.op, ast.Mult)) or (op == '/' and isinstance(v.op, ast.Div)))
                idx = None
                if okc:
                    left = v.left
                    if isinstance(left, ast.UnaryOp) and isinstance(left.op, ast.USub):
                        neg, left = True, left.operand
                    if isinstance(left, ast.Call) and call_name(left) == 'float' and isinstance(left.args[0], ast.Subscript):
                        idx = left.args[0].slice.value if isinstance(left.args[0].slice, ast.Constant) else None
                want_idx = order[cn].index(k.arg)
                want_neg = (cn == 'DescentPhaseData' and q == 'rocd')
                ok = okc and idx == want_idx and neg == want_neg
                nconv += 1
                why = f'column {want_idx} {op} {const}' + (' negated (descent)' if want_neg else '')
                if not okc:
                    why = f'{k.arg} is not converted with {op} {const}'
                elif idx != want_idx:
                    why = f'{k.arg} reads PTF column {idx}, expected column {want_idx}'
                elif neg != want_neg:
                    why = 'descent ROCD sign convention broken' if want_neg else f'{k.arg} is negated'
                ctx.ob('C06-R5', ld, f'{cn}.{k.arg} = {norm(v)}', ok, why, line=v.lineno)
    ctx.floor('C06-R5/conv', nconv, 12, 'PTF field conversions')
    # rows skipped only for documented reasons
    cap = next((n for n in walk_no_nested(ld.node) if isinstance(n, ast.If) and norm(n.test) == 'capture' and
                any('parts' in norm(s) for s in n.body)), None)
    if cap is None:
        ctx.undecided('C06-R5', ld, 'if capture:', 'table-row section not found')
    for n in ast.walk(cap):
        if isinstance(n, ast.Continue):
            gs = [norm(t) for t, pol, _ in guards_of(n, stop=cap)]
            in_exc = any(isinstance(a, ast.ExceptHandler) and a.type is not None and norm(a.type) == 'ValueError' for a in ancestors(n))
            ok = gs == ['len(parts) < 4'] or (in_exc and not gs)
            ctx.ob('C06-R5', ld, f'table row skipped under {gs or "except ValueError"}', ok,
                   'separator / non-numeric line' if ok else
                   'a data row can be skipped for another reason (e.g. a truthiness test drops flight level 0)', line=n.lineno)
    flparse = [st for t, st, how in stores_to(cap) if isinstance(t, ast.Name) and t.id == 'fl']
    ok = len(flparse) == 1 and norm(flparse[0].value) == 'int(parts[0].strip())'
    ctx.ob('C06-R5', ld, f'fl = {norm(flparse[0].value) if flparse else "?"}', ok, 'first column parsed as integer' if ok else
           'flight level parsing changed')
    # sections: parts[1]=cruise, [2]=climb, [3]=descent
    sec = {}
    for t, st, how in stores_to(cap):
        if isinstance(t, ast.Name) and t.id.endswith('_str') and isinstance(st.value, ast.Subscript):
            sec[t.id] = norm(st.value)
    ok = sec == {'cruise_str': 'parts[1]', 'climb_str': 'parts[2]', 'descent_str': 'parts[3]'}
    ctx.ob('C06-R5', ld, f'PTF sections {sec}', ok, 'cruise | climb | descent column blocks' if ok else 'phase blocks read from the wrong PTF section')


def rule_layout(ctx):
    m = ctx.prog.module(LEG)
    it = m.func('Interpolator.__init__')
    src = ' '.join(norm(s) for s in it.node.body)
    ok = 'fls = sorted((float(fl) for fl in df.fl.unique()))' in src and 'masses = sorted((float(m) for m in df.mass.unique()))' in src
    ctx.ob('C06-R7', it, 'coordinates are the sorted unique levels and masses', ok, 'sorted unique values' if ok else 'coordinate arrays changed')
    # 2-D branch
    loop = next((n for n in walk_no_nested(it.node) if isinstance(n, ast.For) and 'itertuples' in norm(n.iter)), None)
    ok = False
    if loop is not None:
        b = ' '.join(norm(s) for s in loop.body)
        ok = 'i = fls.index(row.fl)' in b and 'j = masses.index(row.mass)' in b and all(
            f'self.{q}[i, j] = row.{q}' in b for q in ('tas', 'rocd', 'fuel_flow'))
    ctx.ob('C06-R7', it, '2-D branch: value[i, j] placed by coordinate lookup, same-named column', ok,
           'i from FL, j from mass' if ok else 'grid fill-in no longer matches the (FL, mass) coordinate order')
    xs2 = [st for t, st, how in stores_to(it.node) if norm(t) == 'self.xs']
    ok = len(xs2) == 2 and {norm(x.value) for x in xs2} == {'(np.array(fls), np.array(masses))', '(np.array(fls),)'}
    ctx.ob('C06-R7', it, 'grid axes (FL, mass) / (FL,)', ok, 'axis order matches the query tuple' if ok else 'grid axes order changed')
    shp = single_def_value(it.node, 'shape')
    ok = shp is not None and norm(shp) == '(len(fls), len(masses))'
    ctx.ob('C06-R7', it, 'value arrays shaped (levels, masses)', ok, norm(shp) if ok else 'shape changed', nontrivial=False)
    # 1-D branch: values must be ordered like the sorted coordinate
    one = [st for t, st, how in stores_to(it.node) if norm(t) in ('self.tas', 'self.rocd', 'self.fuel_flow')
           and 'df.' in norm(st.value)]
    ctx.floor('C06-R7', len(one), 3, 'single-mass value arrays')
    for st in one:
        sorted_before = [s for t, s, how in stores_to(it.node) if isinstance(t, ast.Name) and t.id == 'df'
                         and isinstance(s.value, ast.Call) and call_name(s.value) == 'df.sort_values'
                         and s.value.args and norm(s.value.args[0]) == "'fl'" and s.lineno < st.lineno
                         and getattr(s, '_parent', None) is getattr(st, '_parent', None)
                         and not any(k.arg == 'ascending' for k in s.value.keywords)]
        q = norm(st.targets[0]).split('.')[-1]
        same = norm(st.value) == f'df.{q}.values'
        ok = bool(sorted_before) and same
        ctx.ob('C06-R7', it, f'single-mass {norm(st)}', ok,
               'rows sorted by flight level before the values are taken' if ok else
               ('value array and coordinate array are ordered differently: the coordinate is sorted, the values '
                'are in input row order, so a table whose rows are not in ascending flight-level order returns '
                'the wrong row' if same else 'value taken from a different column'), line=st.lineno)


def run(ctx):
    rule_constants(ctx)
    rule_no_extrapolation(ctx)
    rule_validation(ctx)
    rule_masses(ctx)
    rule_ptf(ctx)
    rule_layout(ctx)
    ctx.note('exact reciprocals still leave a 1-ulp float residue at some levels; that residue is outside what a constants rule decides')
    ctx.assumptions += ['scipy.interpolate.interpn raises for points outside the grid unless bounds_error=False',
                        'node exactness / boundedness / continuity of linear interpolation are scipy numerics (not decided)']
