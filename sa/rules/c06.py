"""C06 — the performance model reproduces its table and never extrapolates.

All rules but R1 are decided on *values that flow*, not on the spelling of one
function: the functions involved are executed symbolically (section "Value flow"
below: locals replaced by what they were bound to, every branch a path condition,
resolved helpers / closures / properties / callable objects inlined, loops over
literal tables unrolled, other loops summarised by one symbolic iteration), and
the path conditions are evaluated on explicit scenarios (each flight rule, each
symbolic mass, the seven points of the ROCD axis around the tolerance, sample
PTF rows).  A form the engine or a recogniser cannot follow is UNDECIDED, never
a violation.

R1  reciprocal constants (constant folding over exact rationals): for every
    pair X_TO_Y / Y_TO_X in units.py the folded product is exactly 1 (this
    includes METERS_TO_FL · FL_TO_METERS); one flight level is 100 ft.
R2  no extrapolation (also C02-R10, C17-R6; positive controls).  On every path
    from evaluate() down: each output of the returned Performance is the result
    of a table look-up that refuses a point outside its grid, linear, over the
    grid attribute and the value-table attribute of one and the same
    interpolator object, one table per output; the query point's altitude
    component is the state's altitude times a constant and its mass component
    the state's mass or the table's own extreme mass -- no min/max/clip/round in
    between, whichever function each piece sits in; no routine that answers
    outside its data (np.interp, np.clip, griddata, ...) is called on the path.
    A look-up is scipy `interpn(grid, values, point)` or the call of a scipy
    interpolator object (`RegularGridInterpolator`, `interp1d`) built over
    (grid, values) on the path, or kept by the constructor of the interpolator
    in an attribute / dict or tuple element / built on first use, over one
    table or over np.stack([tables], axis=-1) with the output picking its
    component: all are read as the same interpn call (lower_lookup).  Whether a
    routine refuses is scipy's documented behaviour: interpn and
    RegularGridInterpolator raise unless bounds_error is given and not True
    (fill_value alone changes nothing), interp1d raises unless bounds_error is
    false or fill_value='extrapolate'; LinearNDInterpolator,
    NearestNDInterpolator, interp2d, RectBivariateSpline never refuse.
    A routine told not to refuse is still sound when explicit range tests
    refuse in its place (envelope_guard): on every path to the look-up the
    literals of the path condition that mention a component of the query,
    evaluated on a sample grid, contradict the path for that component below
    the first / above the last node of its own grid axis (the other branch of
    the test leaves by raise) and agree with it at the two end nodes (a strict
    comparison refuses the table's own edge) -- whatever the form of the test
    (chained / two one-sided comparisons, min()/max() of the axis, bounds the
    constructor derives from the axes, bool helper, all(.. for q, axis in
    zip(point, grid)), a statement loop over zip(point, grid), a helper with
    guard clauses).  Literals that only read the interpolator object (its
    number of masses) say which shape of table the path is for and are solved
    over small counts; a path whose literals contradict each other is no path.
    A test skipped by a guard clause / early return on one shape of table, made
    on one side or against another axis, or that only warns, is a violation.
R3  load-time validation.  (a) a validator of the model builds the performance
    table on every path, outside any try/except, and keeps it where evaluate()
    reads it; (b) every normal path through the table's initialisation has
    established -- by a test whose other branch leaves by raise -- the mass
    count (1 for an all-negative table, 3 otherwise), #rows = #FL x #mass for the
    zero / positive / negative ROCD sub-tables and the six "depends on FL only"
    facts, recognised as polynomial identities over row / distinct-value counts
    (len, nunique, unique, drop_duplicates, groupby ...) of sub-tables classified
    by evaluating their row masks on the ROCD axis; the tests may sit in nested
    closures, static methods, module helpers, bool helpers, loops over literal
    tables (also TABLE.items() / .keys() / .values() of a module-level dict).
    A check weakened to an inequality, skipped by an early return or swallowed
    by a handler is a violation.  A count test the rule does not know (say
    "(FL, mass) pairs are distinct" in place of #rows = #FL x #mass) is decided
    on an explicit table: a three-phase table that breaks exactly the missing
    fact (one node of a 2 x 3 sub-table removed / one column depending on mass)
    is counted, and when every literal of a normal path is a count test this
    table passes, the table is accepted: violation, with the table; otherwise
    UNDECIDED.
R4  symbolic masses: for aircraft_mass = 'min' / 'max' / a number, the paths
    taken (path conditions evaluated for that value) interpolate at the lowest /
    highest entry of the table's mass list / the number itself (evaluated on a
    sample list; first/last element only counts when every constructor of the
    table passes an ascending list).
R5  PTF -> records -> table.  build_performance_table: every generated row gives
    each column (as named by the column list returned with the rows) a value of
    that column's role, the mass-dependent ones of the mass the row is for; one
    row per mass level the phase record has data for; every record field is
    emitted; every record gets its rows (the guards / comprehension filters a
    row is generated under, evaluated on sample records of flight level 0 / 340
    / 510: a truthiness test drops level 0).  The rows are the elements of the
    returned sequence, however it is written: displays appended / extended into
    an accumulator inside statement loops, or displays, concatenations, *parts,
    itertools.chain / sum(.., []) and comprehensions / generator expressions
    with any number of generators -- a generator over a literal table (of mass
    levels, of (mass, value) pairs, of whole rows) is unrolled like the
    statement loop, one over a record list stands for any record, helper calls
    are inlined, getattr / zip / enumerate over literals folded.  A sequence
    that is not followed, a row per combination of two record lists and a
    filter that cannot be evaluated are UNDECIDED.  PTFData.load: each record field is one number of the row times the
    factor its unit demands (algebra over units.py), descent ROCD negated, and
    that number is the one at its own position of its own block (evaluated on
    sample rows, which also checks the number pattern); a well-formed row at
    flight level 0 / 340 / 510 reaches all three record constructors (guards
    evaluated on the sample rows: a truthiness test drops level 0).  The three
    blocks of a row are read independently (the same guards evaluated on the
    sample rows with every proper subset of their blocks blanked out, as BADA
    leaves the CRUISE block blank below the cruise levels): a row whose other
    blocks are blank still reaches the record of each block it has -- an
    early return / continue / nesting on another block's length drops its
    numbers -- and a blank block gives no record computed from other numbers.
R6  phase selection and sub-tables: for each flight rule the paths taken use the
    interpolator cached under / built from the rows of the documented sign of
    ROCD (one built from the unfiltered frame serves no phase); what is cached
    under a key is built from that key's rows of the same table, wherever the
    cache lives -- a dict field of the table, or a helper object the table
    constructs (store class with __getitem__ / get(), dict subclass with
    __missing__, dataclass; builder passed as lambda or bound method), which
    the engine opens (section "helper objects" of the Engine); the container
    the interpolators are kept in is the table's own: every store of that
    attribute is a new display / constructor call / default_factory per
    instance -- a class-level object, a module-level object or a mutable
    default argument left to its default is shared by every table of the
    process (the answer would depend on which model was evaluated first);
    the three row filters of subset() partition the ROCD axis with one
    tolerance; the query's flight level is the altitude times exactly
    METERS_TO_FL.
R7  coordinate <-> value layout of the interpolator, per path through its
    constructor: each grid axis is the ascending list of the distinct values of
    one table column, in the order of the query point; a two-axis value table is
    allocated (#FL, #mass) and filled at [index of the row's own FL, index of
    the row's own mass] from the column its output names; a one-axis value table
    is that column of the rows sorted (ascending) by the axis column; the query
    point of __call__ has as many components as the grid has axes on every
    compatible pair of branches.
"""

from __future__ import annotations

import ast
import math
import operator
import re
import re as _re
from fractions import Fraction

from ..algebra import AlgebraError, module_constants, normal_form, poly_equal
from ..astutil import (assigned_names, calls_in, const_value, kwarg, norm, single_def_value, stores_to, walk_no_nested)
from ..loader import AnalysisError, FunctionInfo, dotted_name
from ..resolve import expr_class, resolve_call

LEG = 'performance/models/legacy.py'
PTF = 'parsers/ptf_reader.py'
MK = 'commands/make_performance_model.py'
UNITS = 'units.py'


# ======================================================================================================
# Value flow by structured symbolic execution (shared by the rules below, and by c02/c17 through them)
# ======================================================================================================
# A function is executed over *symbolic values*: ast expressions in which every local has been replaced by what
# it was bound to, so that a value reads in terms of the root function's parameters, attributes of `self` and module
# names, whichever helper / closure / temporary it went through.  Every branch forks the path and adds its condition
# (value-substituted) to the path condition; resolved repository callees (nested closures, module helpers, methods
# by the dynamic class of `self`, methods of the object an undeclared field holds -- its class is what the methods of
# the owner store into it --, properties, callable objects) are inlined; loops over literal tables are unrolled, a loop
# over zip(display, sequence) too under the path literal len(sequence) >= len(display) (the other branch is summarised);
# other loops are summarised by one symbolic iteration with the loop-modified locals made unknown.  Calls that are
# not inlined, stores into objects, constructor calls and raises are recorded per path as events.  Nothing of the
# repository is run: the engine rewrites syntax.

class Undecided(Exception):
    """the engine (or a recogniser built on it) met a form it cannot follow"""


def canon(e) -> str:
    if e is None:
        return '<nothing>'
    return e if isinstance(e, str) else ' '.join(ast.unparse(e).split())


def _name(s: str) -> ast.Name:
    return ast.Name(id=s, ctx=ast.Load())


def _call(fn: str, *args) -> ast.Call:
    return ast.Call(func=_name(fn), args=list(args), keywords=[])


def _const(v) -> ast.Constant:
    return ast.Constant(value=v)


def clone(n):
    """copy of an ast tree over its syntactic fields only (the loader's parent links are not followed)"""
    if isinstance(n, list):
        return [clone(x) for x in n]
    if not isinstance(n, ast.AST):
        return n
    return type(n)(**{k: clone(v) for k, v in ast.iter_fields(n)})


def uncur(e):
    """e with the `_cur(x)` markers (value an earlier loop iteration left in x) replaced by x"""
    class T(ast.NodeTransformer):
        def visit_Call(self, n):
            n = self.generic_visit(n)
            return n.args[0] if is_sym(n, '_cur') else n
    return T().visit(clone(e))


def is_sym(e, fn: str) -> bool:
    """e is the engine's own marker call fn(...)"""
    return isinstance(e, ast.Call) and isinstance(e.func, ast.Name) and e.func.id == fn


DISPLAY = (ast.Tuple, ast.List, ast.Set)


def _dotted_const(e) -> str | None:
    """text of an enum-member-like constant A.B.C (last component upper case)"""
    d = dotted_name(e) if isinstance(e, ast.Attribute) else None
    if d and d.split('.')[-1].isupper() and not d.startswith('self.'):
        return d
    return None


def distinct_consts(a, b) -> bool | None:
    """True/False when a and b are constants known to differ / to be the same; None when unknown"""
    if isinstance(a, ast.Constant) and isinstance(b, ast.Constant):
        return not (type(a.value) is type(b.value) and a.value == b.value) if not (
            isinstance(a.value, (int, float)) and isinstance(b.value, (int, float))) else a.value != b.value
    da, db = _dotted_const(a), _dotted_const(b)
    if da and db and da.rsplit('.', 1)[0] == db.rsplit('.', 1)[0]:
        return da != db
    return None


def simp(n: ast.expr) -> ast.expr:
    """one level of constant folding on literal structure (children are already simplified)"""
    if isinstance(n, ast.Subscript) and not isinstance(getattr(n, 'ctx', None), ast.Store):
        v, s = n.value, n.slice
        if isinstance(v, (ast.Tuple, ast.List)) and isinstance(s, ast.Constant) and isinstance(s.value, int) \
                and not isinstance(s.value, bool) and -len(v.elts) <= s.value < len(v.elts) \
                and not any(isinstance(x, ast.Starred) for x in v.elts):
            return v.elts[s.value]
        if isinstance(v, ast.Dict) and None not in v.keys and (isinstance(s, ast.Constant) or _dotted_const(s)):
            for k, val in zip(v.keys, v.values):
                if distinct_consts(k, s) is False:
                    return val
    elif isinstance(n, ast.Call):
        f, a = n.func, n.args
        if isinstance(f, ast.Name) and not n.keywords:
            if f.id == 'len' and len(a) == 1 and isinstance(a[0], DISPLAY + (ast.Dict,)) \
                    and not any(isinstance(x, ast.Starred) for x in getattr(a[0], 'elts', [])):
                return _const(len(a[0].elts) if not isinstance(a[0], ast.Dict) else len(a[0].keys))
            if f.id in ('list', 'tuple') and len(a) == 1 and isinstance(a[0], (ast.Tuple, ast.List)):
                return (ast.List if f.id == 'list' else ast.Tuple)(elts=list(a[0].elts), ctx=ast.Load())
            if f.id in ('list', 'tuple') and len(a) == 1 and isinstance(a[0], ast.Dict) and None not in a[0].keys:
                return (ast.List if f.id == 'list' else ast.Tuple)(elts=list(a[0].keys), ctx=ast.Load())
            if f.id == 'getattr' and len(a) == 2 and isinstance(a[1], ast.Constant) and isinstance(a[1].value, str):
                return ast.Attribute(value=a[0], attr=a[1].value, ctx=ast.Load())
            if f.id == 'zip' and a and all(isinstance(x, (ast.Tuple, ast.List)) for x in a):
                m = min(len(x.elts) for x in a)
                return ast.List(elts=[ast.Tuple(elts=[x.elts[i] for x in a], ctx=ast.Load()) for i in range(m)], ctx=ast.Load())
            if f.id == 'enumerate' and len(a) == 1 and isinstance(a[0], (ast.Tuple, ast.List)):
                return ast.List(elts=[ast.Tuple(elts=[_const(i), x], ctx=ast.Load()) for i, x in enumerate(a[0].elts)],
                                ctx=ast.Load())
            if f.id == 'dict' and not a:
                return ast.Dict(keys=[], values=[])
        if isinstance(f, ast.Name) and f.id == 'dict' and not a and n.keywords and all(k.arg for k in n.keywords):
            return ast.Dict(keys=[_const(k.arg) for k in n.keywords], values=[k.value for k in n.keywords])
        if isinstance(f, ast.Attribute) and not n.keywords:
            o = f.value
            if f.attr == 'index' and isinstance(o, (ast.Tuple, ast.List)) and len(a) == 1 and isinstance(a[0], ast.Constant):
                for i, x in enumerate(o.elts):
                    if distinct_consts(x, a[0]) is False:
                        return _const(i)
            if isinstance(o, ast.Dict) and None not in o.keys:
                if f.attr == 'items' and not a:
                    return ast.List(elts=[ast.Tuple(elts=[k, v], ctx=ast.Load()) for k, v in zip(o.keys, o.values)], ctx=ast.Load())
                if f.attr == 'keys' and not a:
                    return ast.List(elts=list(o.keys), ctx=ast.Load())
                if f.attr == 'values' and not a:
                    return ast.List(elts=list(o.values), ctx=ast.Load())
                if f.attr == 'get' and a and (isinstance(a[0], ast.Constant) or _dotted_const(a[0])) \
                        and all(distinct_consts(k, a[0]) is not None for k in o.keys):
                    for k, v in zip(o.keys, o.values):
                        if distinct_consts(k, a[0]) is False:
                            return v
                    return a[1] if len(a) > 1 else _const(None)
    elif isinstance(n, ast.JoinedStr):
        parts = []
        for v in n.values:
            if isinstance(v, ast.Constant):
                parts.append(str(v.value))
            elif isinstance(v, ast.FormattedValue) and isinstance(v.value, ast.Constant) and v.conversion == -1 \
                    and v.format_spec is None and isinstance(v.value.value, str):
                parts.append(v.value.value)
            else:
                return n
        return _const(''.join(parts))
    elif isinstance(n, ast.BinOp):
        l, r = n.left, n.right
        if isinstance(n.op, ast.Add):
            if isinstance(l, ast.Constant) and isinstance(r, ast.Constant) and isinstance(l.value, str) and isinstance(r.value, str):
                return _const(l.value + r.value)
            if type(l) is type(r) and isinstance(l, (ast.List, ast.Tuple)):
                return type(l)(elts=list(l.elts) + list(r.elts), ctx=ast.Load())
    elif isinstance(n, ast.Compare) and len(n.ops) == 1:
        l, op, r = n.left, n.ops[0], n.comparators[0]
        if isinstance(op, (ast.Eq, ast.NotEq, ast.Is, ast.IsNot)):
            d = distinct_consts(l, r)
            if d is None and isinstance(op, (ast.Is, ast.IsNot)) and isinstance(r, ast.Constant) and r.value is None \
                    and isinstance(l, DISPLAY + (ast.Dict, ast.JoinedStr, ast.Lambda, ast.ListComp, ast.DictComp)):
                d = True
            if d is not None:
                return _const(d != isinstance(op, (ast.Eq, ast.Is)))
        if isinstance(op, (ast.In, ast.NotIn)) and isinstance(r, DISPLAY) and (isinstance(l, ast.Constant) or _dotted_const(l)):
            ds = [distinct_consts(l, x) for x in r.elts]
            if any(d is False for d in ds):
                return _const(isinstance(op, ast.In))
            if all(d is True for d in ds):
                return _const(isinstance(op, ast.NotIn))
    elif isinstance(n, ast.UnaryOp) and isinstance(n.op, ast.Not) and isinstance(n.operand, ast.Constant):
        return _const(not n.operand.value)
    elif isinstance(n, ast.BoolOp):
        is_and = isinstance(n.op, ast.And)
        keep = []
        for v in n.values:
            if isinstance(v, ast.Constant):
                if bool(v.value) != is_and:
                    return v if not keep else ast.BoolOp(op=n.op, values=keep + [v])
                continue
            keep.append(v)
        if not keep:
            return n.values[-1]
        return keep[0] if len(keep) == 1 else ast.BoolOp(op=n.op, values=keep)
    elif isinstance(n, ast.IfExp) and isinstance(n.test, ast.Constant):
        return n.body if n.test.value else n.orelse
    return n


class Event:
    __slots__ = ('kind', 'fi', 'node', 'name', 'value', 'args', 'kwargs', 'target', 'pc', 'prot', 'loops', 'self_val', 'cls',
                 'via', 'site')

    def __init__(self, kind, fr, node, st, **kw):
        self.kind, self.fi, self.node = kind, fr.fi, node
        self.pc, self.prot, self.loops = st.pc, st.prot, st.loops
        self.self_val = fr.self_val
        self.name = self.value = self.target = self.cls = None
        self.via = self.site = None     # set on a look-up written with a prebuilt interpolator object (see lower_lookup)
        self.args, self.kwargs = [], {}
        for k, v in kw.items():
            setattr(self, k, v)

    def like(self, **kw):
        """a copy of this event with some fields replaced"""
        v = Event.__new__(Event)
        for s in Event.__slots__:
            setattr(v, s, getattr(self, s, None))
        for k, x in kw.items():
            setattr(v, k, x)
        return v

    @property
    def line(self):
        return getattr(self.node, 'lineno', 0) or 0

    def arg(self, pos: int, name: str):
        if pos is not None and len(self.args) > pos:
            return self.args[pos]
        return self.kwargs.get(name)


class St:
    """one path: locals of the current frame, object stores made on the path, path condition, events"""
    __slots__ = ('env', 'heap', 'pc', 'events', 'prot', 'loops', 'known')

    def __init__(self, env=None, heap=None, pc=(), events=(), prot=0, loops=(), known=None):
        self.env, self.heap, self.pc, self.events, self.prot, self.loops = env or {}, heap or {}, pc, events, prot, loops
        self.known = known if known is not None else {}      # text of a decided condition -> polarity

    def but(self, **kw):
        s = St(self.env, self.heap, self.pc, self.events, self.prot, self.loops, self.known)
        for k, v in kw.items():
            setattr(s, k, v)
        if 'pc' in kw and 'known' not in kw:
            s.known = {canon(c): p for c, p in s.pc} if len(s.pc) != len(self.pc) + 1 or s.pc[:-1] != self.pc \
                else {**self.known, canon(s.pc[-1][0]): s.pc[-1][1]}
        return s

    def bind(self, name, val):
        e = dict(self.env)
        e[name] = val
        return self.but(env=e)

    def store(self, key, val):
        h = dict(self.heap)
        h[key] = val
        return self.but(heap=h)

    def event(self, ev):
        return self.but(events=self.events + (ev,))

    def lit(self, cond: ast.expr):
        """polarity of a condition the path has already decided, else None"""
        return self.known.get(canon(cond))


class Fr:
    __slots__ = ('fi', 'cls', 'self_val', 'stack')

    def __init__(self, fi, cls, self_val, stack):
        self.fi, self.cls, self.self_val, self.stack = fi, cls, self_val, stack


class _Closure:
    def __init__(self, fi):
        self.fi = fi


def _assigned_in(stmts) -> set[str]:
    out = set()
    for s in stmts:
        for x in walk_no_nested(s):
            if isinstance(x, ast.Name) and isinstance(x.ctx, (ast.Store, ast.Del)):
                out.add(x.id)
    return out


def _is_dataclass(k) -> bool:
    return any(ast.unparse(d).split('(')[0].split('.')[-1] == 'dataclass' for d in k.node.decorator_list)


def _field_decl(k, name):
    return next((x for c in k.mro() for x in c.node.body if isinstance(x, ast.AnnAssign) and isinstance(x.target, ast.Name)
                 and x.target.id == name), None)


def _field_flag(k, name, flag, value) -> bool:
    """the dataclass field `name` of k is declared with field(..., flag=value)"""
    d = _field_decl(k, name)
    return d is not None and isinstance(d.value, ast.Call) and canon(d.value.func).split('.')[-1] == 'field' \
        and any(kw.arg == flag and const_value(kw.value) is value for kw in d.value.keywords)


def _is_classvar(k, name) -> bool:
    d = _field_decl(k, name)
    return d is not None and 'ClassVar' in ast.unparse(d.annotation)


def _attr_stores(prog) -> dict:
    """attribute name -> the store / delete targets `<obj>.name` of the program (src), cached"""
    c = prog.__dict__.get('_c06_attr_stores')
    if c is None:
        c = {}
        for m in prog.src_modules():
            for n in ast.walk(m.tree):
                if isinstance(n, ast.Attribute) and isinstance(n.ctx, (ast.Store, ast.Del)):
                    c.setdefault(n.attr, []).append(n)
        prog.__dict__['_c06_attr_stores'] = c
    return c


def _sets_by_name(k) -> bool:
    """some class of k's MRO sets attributes by computed name (setattr / delattr / __dict__)"""
    for c in k.mro():
        hit = c.__dict__.get('_c06_sets_by_name')
        if hit is None:
            hit = any((isinstance(n, ast.Call) and isinstance(n.func, ast.Name) and n.func.id in ('setattr', 'delattr'))
                      or (isinstance(n, ast.Attribute) and n.attr in ('__dict__', '__setattr__', '__delattr__'))
                      for n in ast.walk(c.node))
            c.__dict__['_c06_sets_by_name'] = hit
        if hit:
            return True
    return False


_MUTATORS = {'append', 'extend', 'insert', 'update', 'setdefault', 'add', 'pop', 'remove', 'clear', 'sort', 'reverse'}


class Engine:
    def __init__(self, prog, cap: int = 6000, max_depth: int = 10, inline=None, read_back: bool = True, objects: bool = False):
        self.prog = prog
        self.read_back = read_back      # a field stored on the path reads back as the stored value
        # objects: helper objects are opened (see "Helper objects" below): `obj[k]` runs the __getitem__ of obj's
        # repository class, a field the constructor binds once to its argument reads as that argument, and a
        # function value that reaches a call through such a field (lambda, bound method) is applied where it is called
        self.objects = objects
        self._objinfo: dict = {}        # text of an object expression -> (class, positional, keyword) it was constructed with
        self._callables: dict = {}      # text of a function value -> how to apply it (closure of a lambda / bound method)
        self._elem_classes: dict = {}   # text of a container -> classes of the objects the run has stored into it (None: other)
        self.attr_owner: dict = {}      # text of an attribute value -> (static class of the object, attribute name)
        self.cap = cap
        self.max_depth = max_depth
        self.inline = inline or (lambda fi: fi.file.startswith('src/'))
        self.ctors: list = []          # (ClassInfo, Event) of every constructor call met
        # resolution of *source* nodes does not depend on the engine instance: shared over the program
        self._class_cache: dict = prog.__dict__.setdefault('_c06_class_cache', {})
        self._resolve_cache: dict = prog.__dict__.setdefault('_c06_resolve_cache', {})
        # the loader's rename recovery (globalnorm R) respells an identifier everywhere; the name of something
        # *outside* the repository is what the source says, so external names are read with the rename undone
        self._written = {old: new for new, old in ((getattr(prog, 'globalnorm', None) or {}).get('renamed') or {}).items()}
        self.n = 0

    # ---------------------------------------------------------------- entry
    def run(self, fi, self_cls=None, args: dict | None = None, self_val=None, env: dict | None = None):
        """outcomes [(kind, value, St)] of fi with symbolic parameters; kind in fall/return/raise"""
        e = dict(env or {})
        for p in fi.params:
            e.setdefault(p, _name(p))
        e.update(args or {})
        sv = self_val
        if sv is None and fi.params and fi.params[0] in ('self', 'cls'):
            sv = e[fi.params[0]]
        fr = Fr(fi, self_cls or fi.cls, sv, (fi.qualname,))
        outs = self.block(fi.node.body, St(env=e), fr)
        return [(('return' if k == 'fall' else k), (v if k != 'fall' else _const(None)), s) for k, v, s in outs]

    def _tick(self, k=1):
        self.n += k
        if self.n > self.cap * 40:
            raise Undecided('too many paths')

    # ---------------------------------------------------------------- conditions
    def assume(self, st: St, cond: ast.expr, pol: bool) -> St | None:
        if isinstance(cond, ast.Constant):
            return st if bool(cond.value) == pol else None
        if isinstance(cond, ast.UnaryOp) and isinstance(cond.op, ast.Not):
            return self.assume(st, cond.operand, not pol)
        if isinstance(cond, ast.BoolOp) and isinstance(cond.op, ast.And) == pol:
            for v in cond.values:
                st = self.assume(st, v, pol)
                if st is None:
                    return None
            return st
        known = st.lit(cond)
        if known is not None:
            return st if known == pol else None
        if isinstance(cond, ast.Compare) and len(cond.ops) == 1 and isinstance(cond.ops[0], (ast.Eq, ast.Is)):
            l, r = canon(cond.left), cond.comparators[0]
            for c, p in st.pc:
                if p and isinstance(c, ast.Compare) and len(c.ops) == 1 and isinstance(c.ops[0], (ast.Eq, ast.Is)) \
                        and canon(c.left) == l:
                    d = distinct_consts(c.comparators[0], r)
                    if d is True:
                        return st if not pol else None
                    if d is False:
                        return st if pol else None
        return st.but(pc=st.pc + ((cond, pol),))

    def fork(self, st: St, cond: ast.expr):
        out = []
        for pol in (True, False):
            s = self.assume(st, cond, pol)
            if s is not None:
                out.append((pol, s))
        return out

    # ---------------------------------------------------------------- resolution helpers
    def class_named(self, m, e):
        try:
            return self.prog.resolve_class_expr(m, e)
        except Exception:
            return None

    def class_of(self, fr: Fr, e: ast.expr, depth=0):
        """static class of the *source* expression e in frame fr (annotations, constructor assignments, element
        stores of a container attribute, return annotations / returned expressions of resolved callees)"""
        if depth > 4:
            return None
        if isinstance(e, ast.Name) and e.id in ('self', 'cls') and fr.cls is not None:
            return fr.cls
        key = (fr.fi.file, fr.fi.qualname, id(e), fr.cls.name if fr.cls is not None else None)
        if key not in self._class_cache:
            self._class_cache[key] = None
            self._class_cache[key] = self._class_of(fr, e, depth)
        return self._class_cache[key]

    def _class_of(self, fr: Fr, e: ast.expr, depth):
        c = None
        try:
            c = expr_class(self.prog, fr.fi, e)
        except Exception:
            c = None
        if c is not None:
            return c
        if isinstance(e, ast.Subscript):
            b = e.value
            if isinstance(b, ast.Attribute):
                owner = self.class_of(fr, b.value, depth + 1)
                if owner is not None:
                    ann = owner.all_fields().get(b.attr)
                    if isinstance(ann, ast.Subscript):
                        parts = ann.slice.elts if isinstance(ann.slice, ast.Tuple) else [ann.slice]
                        r = self.class_named(owner.module, parts[-1])
                        if r is not None:
                            return r
                    for k in owner.mro():
                        for meth in k.methods.values():
                            for n in walk_no_nested(meth.node):
                                if isinstance(n, ast.Assign) and isinstance(n.value, ast.Call):
                                    for t in n.targets:
                                        if isinstance(t, ast.Subscript) and isinstance(t.value, ast.Attribute) \
                                                and t.value.attr == b.attr and dotted_name(t.value.value) == 'self':
                                            r = self.class_named(k.module, n.value.func)
                                            if r is not None:
                                                return r
            return None
        if isinstance(e, ast.Name):
            v = single_def_value(fr.fi.node, e.id)
            return self.class_of(fr, v, depth + 1) if v is not None else None
        if isinstance(e, ast.Attribute):
            # a field that is not declared: the class of what the methods of its owner store into it, when every
            # store agrees (`self._table = table` with `table: PerformanceTable`)
            owner = self.class_of(fr, e.value, depth + 1)
            found = {}
            if owner is not None and e.attr not in owner.all_fields():
                for k in owner.mro():
                    for meth in k.methods.values():
                        for n in walk_no_nested(meth.node):
                            if isinstance(n, (ast.Assign, ast.AnnAssign)) and n.value is not None:
                                for t in (n.targets if isinstance(n, ast.Assign) else [n.target]):
                                    if isinstance(t, ast.Attribute) and t.attr == e.attr and dotted_name(t.value) == 'self':
                                        r = self.class_of(Fr(meth, k, None, fr.stack), n.value, depth + 1)
                                        found[id(r)] = r
            return next(iter(found.values())) if len(found) == 1 else None
        if isinstance(e, ast.Call):
            callee = self.resolve(fr, e)
            if callee is not None and self.objects:
                r = self._generic_result(fr, e, callee, depth)
                if r is not None:
                    return r
            if callee is not None:
                sub = Fr(callee, callee.cls, None, fr.stack)
                for n in walk_no_nested(callee.node):
                    if isinstance(n, ast.Return) and n.value is not None:
                        r = self.class_of(sub, n.value, depth + 1)
                        if r is not None:
                            return r
        return None

    def _generic_result(self, fr: Fr, e: ast.Call, callee, depth):
        """class of `obj.method(..)` when the method returns a type parameter T of its generic class K[T] and obj is
        an attribute declared K[SomeClass]"""
        k = callee.cls
        ret = callee.node.returns
        tps = [t.name for t in getattr(k.node, 'type_params', [])] if k is not None else []
        if not tps or not isinstance(ret, ast.Name) or ret.id not in tps or not isinstance(e.func, ast.Attribute):
            return None
        recv = e.func.value
        if not isinstance(recv, ast.Attribute):
            return None
        owner = self.class_of(fr, recv.value, depth + 1)
        ann = owner.all_fields().get(recv.attr) if owner is not None else None
        if isinstance(ann, ast.Constant) and isinstance(ann.value, str):
            try:
                ann = ast.parse(ann.value, mode='eval').body
            except SyntaxError:
                return None
        if not isinstance(ann, ast.Subscript) or self.class_named(owner.module, ann.value) is not k:
            return None
        parts = ann.slice.elts if isinstance(ann.slice, ast.Tuple) else [ann.slice]
        i = tps.index(ret.id)
        return self.class_named(owner.module, parts[i]) if i < len(parts) else None

    def resolve(self, fr: Fr, c: ast.Call):
        """repository function a *source* call resolves to (methods by the dynamic class of self)"""
        key = (id(c), fr.fi.qualname, fr.cls.name if fr.cls is not None else None)
        if key not in self._resolve_cache:
            self._resolve_cache[key] = (c, self._resolve(fr, c))
        return self._resolve_cache[key][1]

    def _resolve(self, fr: Fr, c: ast.Call):
        f = c.func
        if isinstance(f, ast.Attribute) and isinstance(f.value, ast.Name) and f.value.id in ('self', 'cls') and fr.cls is not None:
            m = fr.cls.find_method(f.attr)
            if m is not None:
                return m
        try:
            r = resolve_call(self.prog, fr.fi, c)
        except Exception:
            r = None
        if r is not None:
            return r
        if isinstance(f, ast.Name) and (f.id in ('self', 'cls') or self.class_named(fr.fi.module, f) is not None):
            return None
        if isinstance(f, ast.Attribute) and isinstance(f.value, ast.Attribute):
            # a method of the object an undeclared field holds (class of the field: what its owner stores into it)
            k = self.class_of(fr, f.value)
            m = k.find_method(f.attr) if k is not None else None
            if m is not None:
                return m
        k = self.class_of(fr, f)        # a callable object
        if k is not None:
            return k.find_method('__call__')
        return None

    def ext_name(self, fr: Fr, f: ast.expr) -> str | None:
        """canonical dotted name of an external callee through the module's imports (np.interp -> numpy.interp)"""
        d = dotted_name(f)
        if not d:
            return None
        head, _, rest = d.partition('.')
        imp = fr.fi.module.imports.get(head)
        if imp:
            return self.as_written(imp + ('.' + rest if rest else ''))
        return d

    def as_written(self, ext: str | None) -> str | None:
        """dotted name of an external callee as the source spells it (rename recovery undone, see __init__)"""
        if not ext or not self._written or ext.startswith('.'):
            return ext
        return '.'.join(self._written.get(c, c) for c in ext.split('.'))

    # ---------------------------------------------------------------- expressions
    def ev(self, e: ast.expr, st: St, fr: Fr, raises: list) -> list:
        """[(value, St)] -- one entry per path evaluating e forks into"""
        self._tick()
        if e is None:
            return [(None, st)]
        if isinstance(e, ast.Constant):
            return [(e, st)]
        if isinstance(e, ast.Name):
            v = st.env.get(e.id)
            if v is None or isinstance(v, _Closure):
                return [(_name(e.id), st)]
            return [(v, st)]
        if isinstance(e, ast.Attribute):
            out = []
            for v, s in self.ev(e.value, st, fr, raises):
                out += self._attr(e, v, s, fr, raises)
            return out
        if isinstance(e, ast.Subscript):
            out = []
            gm = self._getitem_of(fr, e) if self.objects else None
            for v, s in self.ev(e.value, st, fr, raises):
                for sl, s2 in self.ev(e.slice, s, fr, raises):
                    if gm is not None:
                        # obj[k] on an object of a repository class: what its __getitem__ returns
                        for absent, s3 in (self.fork(s2, ast.Compare(left=sl, ops=[ast.NotIn()], comparators=[v]))
                                           if gm[2] == 'missing' else [(True, s2)]):
                            if absent:
                                out += self._inline(gm[1], self._bind_params(gm[1], [sl], {}, v), v, gm[0], s3, fr, raises)
                            else:
                                out += self._subscript(v, sl, s3)
                        continue
                    if isinstance(v, ast.Name) and v.id not in s2.env:
                        v = self.const_table(v, fr)
                    out += self._subscript(v, sl, s2)
            return out
        if isinstance(e, ast.Call):
            return self._call(e, st, fr, raises)
        if isinstance(e, ast.IfExp):
            out = []
            for t, s in self.ev(e.test, st, fr, raises):
                for pol, s2 in self.fork(s, t):
                    out += self.ev(e.body if pol else e.orelse, s2, fr, raises)
            return out
        if isinstance(e, ast.NamedExpr):
            return [(v, s.bind(e.target.id, v)) for v, s in self.ev(e.value, st, fr, raises)]
        if isinstance(e, (ast.ListComp, ast.SetComp, ast.DictComp)) and len(e.generators) == 1 and not e.generators[0].ifs \
                and not e.generators[0].is_async:
            # a comprehension over a literal table is the display of its elements
            g = e.generators[0]
            out = []
            for it, s1 in self.ev(g.iter, st, fr, raises):
                elems = self.literal_elements(self.const_table(it, fr))
                if elems is None or len(elems) > 24:
                    out.append((self._subst(e, s1), s1))
                    continue
                saved = {n: s1.env.get(n) for n in assigned_names(g.target)}
                combos = [([], s1)]
                for el in elems:
                    nxt = []
                    for done, s2 in combos:
                        for s3 in self._target(g.target, el, s2, fr, raises, e):
                            if isinstance(e, ast.DictComp):
                                for k, s4 in self.ev(e.key, s3, fr, raises):
                                    for v, s5 in self.ev(e.value, s4, fr, raises):
                                        nxt.append((done + [(k, v)], s5))
                            else:
                                for v, s4 in self.ev(e.elt, s3, fr, raises):
                                    nxt.append((done + [v], s4))
                    combos = nxt
                for done, s2 in combos:
                    env2 = dict(s2.env)
                    for n, v in saved.items():
                        if v is None:
                            env2.pop(n, None)
                        else:
                            env2[n] = v
                    s2 = s2.but(env=env2)
                    if isinstance(e, ast.DictComp):
                        out.append((ast.Dict(keys=[k for k, _ in done], values=[v for _, v in done]), s2))
                    else:
                        out.append(((ast.List if isinstance(e, ast.ListComp) else ast.Set)(elts=done, ctx=ast.Load())
                                    if isinstance(e, ast.ListComp) else ast.Set(elts=done), s2))
            return out
        if isinstance(e, ast.Lambda) and self.objects:
            # a function value: applied, where it is called, in the frame it was written in (_apply_value)
            v = self._subst(e, st)
            a = e.args
            if not (a.vararg or a.kwarg or a.kwonlyargs or a.defaults or a.posonlyargs):
                self._callables.setdefault(canon(v), ('lambda', e, fr, dict(st.env)))
            return [(v, st)]
        if isinstance(e, (ast.Lambda, ast.ListComp, ast.SetComp, ast.GeneratorExp, ast.DictComp)):
            return [(self._subst(e, st), st)]
        if isinstance(e, (ast.Await, ast.Yield, ast.YieldFrom)):
            return [(e, st)]
        # generic: evaluate the child expressions left to right, rebuild, fold
        fields = []
        for name, val in ast.iter_fields(e):
            if isinstance(val, ast.expr):
                fields.append((name, False, [val]))
            elif isinstance(val, list) and val and all(isinstance(x, (ast.expr, ast.keyword)) or x is None for x in val):
                fields.append((name, True, val))
        combos = [({}, st)]
        for name, is_list, vals in fields:
            nxt = []
            for acc, s in combos:
                parts = [([], s)]
                for x in vals:
                    np_ = []
                    for done, s1 in parts:
                        if x is None:
                            np_.append((done + [None], s1))
                        elif isinstance(x, ast.keyword):
                            for v, s2 in self.ev(x.value, s1, fr, raises):
                                np_.append((done + [ast.keyword(arg=x.arg, value=v)], s2))
                        else:
                            for v, s2 in self.ev(x, s1, fr, raises):
                                np_.append((done + [v], s2))
                    parts = np_
                for done, s1 in parts:
                    a2 = dict(acc)
                    a2[name] = done if is_list else done[0]
                    nxt.append((a2, s1))
            combos = nxt
        out = []
        for acc, s in combos:
            kw = {k: v for k, v in ast.iter_fields(e)}
            kw.update(acc)
            out.append((simp(type(e)(**kw)), s))
        return out

    def _subst(self, e, st: St, bound=frozenset()):
        """replace free local names in e (a lambda / comprehension) by their values; nothing is inlined"""
        env = st.env

        class T(ast.NodeTransformer):
            def __init__(self, bound):
                self.bound = set(bound)

            def visit_Name(self, n):
                if isinstance(n.ctx, ast.Load) and n.id not in self.bound:
                    v = env.get(n.id)
                    if v is not None and not isinstance(v, _Closure):
                        return v
                return n

            def _scoped(self, n, names):
                t = T(self.bound | names)
                return t.generic_visit(n)

            def visit_Lambda(self, n):
                a = n.args
                names = {x.arg for x in a.posonlyargs + a.args + a.kwonlyargs} | \
                    ({a.vararg.arg} if a.vararg else set()) | ({a.kwarg.arg} if a.kwarg else set())
                return self._scoped(n, names)

            def _comp(self, n):
                names = set()
                for g in n.generators:
                    names |= set(assigned_names(g.target))
                return self._scoped(n, names)
            visit_ListComp = visit_SetComp = visit_GeneratorExp = visit_DictComp = _comp
        return T(bound).visit(clone(e))

    def _heap(self, node, st):
        if not st.heap or not self.read_back:
            return node
        tail = ('.' + node.attr) if isinstance(node, ast.Attribute) else ']'
        if not any(k.endswith(tail) for k in st.heap):
            return node
        v = st.heap.get(canon(node))
        return v if v is not None else node

    def _attr(self, e, v, st, fr, raises):
        # property of a repository class: inline the getter
        k = None
        if isinstance(e.value, ast.Name) and e.value.id in ('self', 'cls') and fr.cls is not None:
            k = fr.cls
        else:
            try:
                k = self.class_of(fr, e.value)
            except Exception:
                k = None
        if k is None and isinstance(e.value, ast.Name) and e.value.id not in st.env:
            k = self.class_named(fr.fi.module, e.value)       # ClassName.CONSTANT
        if k is not None and e.attr.isupper():
            # a literal table in the class body (ClassVar): mutable displays are not folded by the loader
            t = self.const_table(ast.Attribute(value=_name('cls'), attr=e.attr, ctx=ast.Load()), Fr(fr.fi, k, None, fr.stack))
            if isinstance(t, (ast.Tuple, ast.List, ast.Set, ast.Dict)):
                return [(t, st)]
        if k is not None:
            m = k.find_method(e.attr)
            if m is not None and any(d.split('.')[-1] in ('property', 'cached_property') for d in m.decorators()) \
                    and self._may_inline(m, fr):
                return self._inline(m, {m.params[0]: v} if m.params else {}, v, k if k.is_subclass_of(m.cls.name) else m.cls,
                                    st, fr, raises)
        # field of an object constructed on this path: DataClass(f=x, ...).f is x
        if isinstance(v, ast.Call) and isinstance(v.func, ast.Name) and any(kw.arg == e.attr for kw in v.keywords):
            kc = self.class_named(fr.fi.module, v.func) or next((c for c, _ in self.ctors if c.name == v.func.id), None)
            if kc is not None and any(d.split('(')[0].split('.')[-1] == 'dataclass' for d in
                                      (ast.unparse(x) for x in kc.node.decorator_list)) \
                    and e.attr in kc.all_fields() and not self._init_stores(kc, e.attr):
                return [(next(kw.value for kw in v.keywords if kw.arg == e.attr), st)]
        if self.objects and k is not None:
            fv = self._ctor_field(k, e.attr, v)
            if fv is not None:
                return [(fv, st)]
        node = simp(ast.Attribute(value=v, attr=e.attr, ctx=ast.Load()))
        if self.objects and k is not None and isinstance(node, ast.Attribute):
            self._note_object(k, e.attr, v, node)
            self.attr_owner.setdefault(canon(node), (k, e.attr))
        return [(self._heap(node, st), st)]

    # ---------------------------------------------------------------- helper objects
    # A class may keep part of its state in a small object of another repository class (a per-phase store, a lazy
    # cache with a builder).  What such an object *is* is decided from constructors only: `self.f = K2(args)` as a
    # top-level statement of the owner's constructor that is the only store of an attribute named f in the program
    # makes `<owner>.f` an object of K2 constructed with args (self read as the owner); `self.g = param` under the same
    # conditions in K2's constructor makes `<owner>.f.g` the argument given for param.  The object keeps its own name
    # (`<owner>.f`), so stores into it and reads from it meet on the heap as for any other attribute.
    def _getitem_of(self, fr: Fr, e: ast.Subscript):
        if isinstance(getattr(e, 'ctx', None), (ast.Store, ast.Del)):
            return None
        try:
            k = self.class_of(fr, e.value)
        except Exception:
            k = None
        gm = k.find_method('__getitem__') if k is not None else None
        how = 'getitem'
        if gm is None and k is not None and any(b.split('[')[0].split('.')[-1] in ('dict', 'Dict', 'UserDict', 'defaultdict', 'OrderedDict')
                                                for b in k.base_exprs):
            # a mapping that computes its missing entries: obj[k] is the entry when there is one, else what __missing__ returns
            gm, how = k.find_method('__missing__'), 'missing'
        if gm is None or not gm.file.startswith('src/') or not self._may_inline(gm, fr) or len(gm.params) != 2:
            return None
        return k, gm, how

    def _ctor_binding(self, k, attr):
        """(constructor, value expression) of `self.attr = value` when that is a top-level statement of k's constructor
        (which has no early return) and the only store of an attribute of that name in the program"""
        cache = self.prog.__dict__.setdefault('_c06_ctor_binding', {})
        key = (k.module.relpath, k.name, attr)
        if key in cache:
            return cache[key]
        cache[key] = res = None
        init = k.find_method('__init__') or k.find_method('__post_init__')
        if init is None or not init.params or not init.file.startswith('src/'):
            return None
        me = init.params[0]
        stmt = None
        for s in init.node.body:
            t = s.targets[0] if isinstance(s, ast.Assign) and len(s.targets) == 1 else \
                s.target if isinstance(s, ast.AnnAssign) and s.value is not None else None
            if isinstance(t, ast.Attribute) and t.attr == attr and isinstance(t.value, ast.Name) and t.value.id == me:
                stmt = (s, t)
                break
        if stmt is None or any(isinstance(n, ast.Return) for n in walk_no_nested(init.node)):
            return None
        if init.name == '__post_init__':
            # a dataclass field the generated __init__ stores as well is not bound by __post_init__ alone
            if _field_decl(k, attr) is not None and not _field_flag(k, attr, 'init', False):
                return None
        stores = _attr_stores(self.prog)
        if [id(x) for x in stores.get(attr, [])] != [id(stmt[1])]:
            return None
        if _sets_by_name(k):
            return None         # the class sets attributes by computed name
        cache[key] = res = (init, stmt[0].value)
        return res

    def _note_object(self, k, attr, owner, node):
        """remember what `<owner>.attr` was constructed with when k's constructor binds attr to a new object"""
        key = canon(node)
        if key in self._objinfo:
            return
        b = self._ctor_binding(k, attr)
        if b is None or not isinstance(b[1], ast.Call):
            return
        init, call = b
        k2 = self.class_named(init.module, call.func)
        if k2 is None or not k2.module.relpath.startswith('src/'):
            return
        me = init.params[0]
        local = (set(init.params) | _assigned_in(init.node.body)) - {me}

        def closed(x, bound=frozenset()):
            """x reads nothing of the constructor's frame but the new object's owner"""
            if isinstance(x, ast.Lambda):
                a = x.args
                if a.vararg or a.kwarg or a.kwonlyargs or a.defaults or a.posonlyargs:
                    return False
                return closed(x.body, bound | {y.arg for y in a.args})
            if any(isinstance(n, (ast.Lambda, ast.NamedExpr, ast.ListComp, ast.SetComp, ast.DictComp, ast.GeneratorExp, ast.Starred,
                                  ast.Await, ast.Yield, ast.YieldFrom)) for n in ast.walk(x)):
                return False
            return not any(isinstance(n, ast.Name) and n.id in local and n.id not in bound for n in ast.walk(x))
        if any(k_.arg is None for k_ in call.keywords) or not all(closed(a) for a in list(call.args) + [k_.value for k_ in call.keywords]):
            return
        st0 = St(env={me: owner})
        dfr = Fr(init, k, owner, ())

        def val(a):
            v = self._subst(a, st0)
            if isinstance(a, ast.Lambda):
                self._callables[canon(v)] = ('lambda', a, dfr, {me: owner})
            elif isinstance(a, ast.Attribute) and isinstance(a.value, ast.Name) and a.value.id == me:
                m = k.find_method(a.attr)
                if m is not None and not any(d.split('.')[-1].split('(')[0] in ('property', 'cached_property', 'staticmethod', 'classmethod')
                                             for d in m.decorators()):
                    self._callables[canon(v)] = ('method', m, k, owner)
            return v
        self._objinfo[key] = (k2, [val(a) for a in call.args], {k_.arg: val(k_.value) for k_ in call.keywords})

    def _ctor_field(self, k, attr, obj):
        """value of `obj.attr` when obj's constructor binds attr once to one of its arguments, else None"""
        info = self._objinfo.get(canon(obj))
        if info is None and isinstance(obj, ast.Call) and isinstance(obj.func, ast.Name):
            k2 = next((c for c, _ in self.ctors if c.name == obj.func.id), None)
            if k2 is not None and not any(x.arg is None for x in obj.keywords) and not any(isinstance(a, ast.Starred) for a in obj.args):
                info = (k2, list(obj.args), {x.arg: x.value for x in obj.keywords})
        if info is None:
            return None
        k2, pos, kw = info
        if k2.find_method('__init__') is None and _is_dataclass(k2) and attr in k2.all_fields():
            # a field of a dataclass that nothing in the program stores again is what the constructor call gave for it
            stores = _attr_stores(self.prog)
            if stores.get(attr) or _sets_by_name(k2):
                return None
            flds = [f for f in k2.all_fields() if not _field_flag(k2, f, 'init', False) and not _is_classvar(k2, f)]
            if attr not in flds or len(pos) > len(flds):
                return None
            given = dict(zip(flds, pos))
            given.update(kw)
            return given.get(attr)
        b = self._ctor_binding(k2, attr)
        if b is None or b[0].name != '__init__' or not isinstance(b[1], ast.Name):
            return None
        init, src = b
        if src.id not in init.params[1:] or src.id in _assigned_in(init.node.body):
            return None
        a = init.node.args
        if a.vararg is not None and a.vararg.arg == src.id or a.kwarg is not None and a.kwarg.arg == src.id:
            return None
        v = self._bind_params(init, pos, kw, obj).get(src.id)
        if v is None or is_sym(v, '_param'):
            return None
        dflt = [d for d in list(a.defaults) + [d for d in a.kw_defaults if d is not None]]
        if any(v is d for d in dflt) and not isinstance(v, ast.Constant):
            return None
        return v

    def _apply_value(self, fv, pos, kw, st, fr, raises):
        """results of calling the function value fv (a lambda or bound method that reached the call through a field of a
        helper object) in its own frame, or None when fv is not such a value"""
        how = self._callables.get(canon(fv)) if fv is not None else None
        if how is None or kw or any(isinstance(x, ast.Starred) for x in pos):
            return None
        if how[0] == 'lambda':
            _, lam, dfr, denv = how
            names = [x.arg for x in lam.args.args]
            tag = f'{dfr.fi.qualname}.<lambda>:{lam.lineno}'
            if len(names) != len(pos) or tag in fr.stack or len(fr.stack) >= self.max_depth:
                return None
            sub = Fr(dfr.fi, dfr.cls, dfr.self_val, fr.stack + (tag,))
            saved = st.env
            return [(v, s.but(env=saved)) for v, s in self.ev(lam.body, st.but(env={**denv, **dict(zip(names, pos))}), sub, raises)]
        _, m, k, owner = how
        if not self._may_inline(m, fr):
            return None
        return self._inline(m, self._bind_params(m, pos, kw, owner), owner, k, st, fr, raises)

    def _init_stores(self, k, attr) -> bool:
        pi = k.find_method('__post_init__')
        return pi is not None and any(isinstance(t, ast.Attribute) and t.attr == attr for t, _, _ in stores_to(pi.node))

    def _subscript(self, v, sl, st):
        node = ast.Subscript(value=v, slice=sl, ctx=ast.Load())
        r = simp(node)
        if r is node and isinstance(v, ast.Dict) and v.keys and None not in v.keys \
                and all(isinstance(k, ast.Constant) or _dotted_const(k) for k in v.keys) \
                and not isinstance(sl, (ast.Constant, ast.Slice)):
            # dispatch table subscripted by a symbolic key: one path per entry
            out = []
            for k, val in zip(v.keys, v.values):
                s = self.assume(st, ast.Compare(left=sl, ops=[ast.Eq()], comparators=[k]), True)
                if s is not None:
                    out.append((val, s))
            return out
        return [(self._heap(r, st), st)]

    # ---------------------------------------------------------------- calls
    def _may_inline(self, callee, fr):
        if callee is None or not self.inline(callee) or callee.qualname in fr.stack or len(fr.stack) >= self.max_depth:
            return False
        if any(isinstance(n, (ast.Yield, ast.YieldFrom)) for n in walk_no_nested(callee.node)):
            return False
        return True

    def _bind_params(self, callee, pos, kw, first):
        a = callee.node.args
        names = [x.arg for x in a.posonlyargs + a.args]
        env = {}
        if first is not None and names:
            env[names[0]] = first
            names = names[1:]
        pos = list(pos)
        for nme in names:
            if pos:
                env[nme] = pos.pop(0)
        if a.vararg:
            env[a.vararg.arg] = ast.Tuple(elts=pos, ctx=ast.Load())
        kw = dict(kw)
        for nme in names + [x.arg for x in a.kwonlyargs]:
            if nme in kw and nme not in env:
                env[nme] = kw.pop(nme)
        if a.kwarg:
            env[a.kwarg.arg] = ast.Dict(keys=[_const(k) for k in kw], values=list(kw.values()))
        allpos = [x.arg for x in a.posonlyargs + a.args]
        for nme, d in zip(allpos[len(allpos) - len(a.defaults):], a.defaults):
            env.setdefault(nme, d)
        for x, d in zip(a.kwonlyargs, a.kw_defaults):
            if d is not None:
                env.setdefault(x.arg, d)
        for nme in allpos + [x.arg for x in a.kwonlyargs]:
            env.setdefault(nme, _call('_param', _const(nme)))
        return env

    def _inline(self, callee, env, self_val, cls, st, fr, raises, closure_env=None):
        e = dict(closure_env or {})
        e.update(env)
        sub = Fr(callee, cls, self_val, fr.stack + (callee.qualname,))
        saved = st.env
        outs = self.block(callee.node.body, st.but(env=e), sub)
        res = []
        for k, v, s in outs:
            s = s.but(env=saved)
            if k in ('fall', 'return'):
                res.append((v if (k == 'return' and v is not None) else _const(None), s))
            elif k == 'raise':
                raises.append(('raise', v, s))
        return res

    def _args(self, c: ast.Call, st, fr, raises):
        """[(positional values, keyword values, St)]"""
        combos = [([], {}, st)]
        for a in c.args:
            nxt = []
            for pos, kw, s in combos:
                inner = a.value if isinstance(a, ast.Starred) else a
                for v, s2 in self.ev(inner, s, fr, raises):
                    if isinstance(a, ast.Starred):
                        if isinstance(v, (ast.Tuple, ast.List)):
                            nxt.append((pos + list(v.elts), kw, s2))
                        else:
                            nxt.append((pos + [ast.Starred(value=v, ctx=ast.Load())], kw, s2))
                    else:
                        nxt.append((pos + [v], kw, s2))
            combos = nxt
        for k in c.keywords:
            nxt = []
            for pos, kw, s in combos:
                for v, s2 in self.ev(k.value, s, fr, raises):
                    kw2 = dict(kw)
                    if k.arg is None:
                        if isinstance(v, ast.Dict) and all(isinstance(x, ast.Constant) and isinstance(x.value, str) for x in v.keys):
                            for kk, vv in zip(v.keys, v.values):
                                kw2[kk.value] = vv
                        else:
                            kw2['**' + str(len(kw2))] = v
                    else:
                        kw2[k.arg] = v
                    nxt.append((pos, kw2, s2))
            combos = nxt
        return combos

    def _call(self, c: ast.Call, st, fr, raises):
        f = c.func
        out = []
        if isinstance(f, ast.Name) and f.id in ('tuple', 'list') and f.id not in st.env and len(c.args) == 1 and not c.keywords \
                and isinstance(c.args[0], ast.GeneratorExp):
            # tuple(f(x) for x in <literal table>) is the display of its elements, like the list comprehension
            g = c.args[0]
            rs: list = []
            res = self.ev(ast.copy_location(ast.ListComp(elt=g.elt, generators=g.generators), g), st, fr, rs)
            if res and all(isinstance(v, ast.List) for v, _ in res):
                raises.extend(rs)
                return [((ast.Tuple if f.id == 'tuple' else ast.List)(elts=list(v.elts), ctx=ast.Load()), s) for v, s in res]
        # receiver / callee value
        recv_paths = [(None, st)]
        if isinstance(f, ast.Attribute):
            recv_paths = self.ev(f.value, st, fr, raises)
        elif not isinstance(f, ast.Name):
            recv_paths = self.ev(f, st, fr, raises)
        for recv, s0 in recv_paths:
            for pos, kw, s in self._args(c, s0, fr, raises):
                out += self._call1(c, recv, pos, kw, s, fr, raises)
        return out

    def _call1(self, c, recv, pos, kw, st, fr, raises):
        f = c.func
        callee = None
        closure_env = None
        if isinstance(f, ast.Name) and isinstance(st.env.get(f.id), _Closure):
            callee, closure_env = st.env[f.id].fi, st.env
        elif isinstance(f, ast.Name) and f.id in st.env and isinstance(st.env[f.id], ast.Lambda) and not kw \
                and not any(isinstance(x, ast.Starred) for x in pos) and canon(st.env[f.id]) not in self._callables:
            lam = st.env[f.id]
            names = [x.arg for x in lam.args.args]
            if len(names) == len(pos):
                return self.ev(lam.body, st.but(env={**st.env, **dict(zip(names, pos))}), fr, raises)
        else:
            callee = self.resolve(fr, c)
        if callee is None and self.objects:
            # a function value kept in a field of a helper object, or bound to a local from one
            fv = None
            if isinstance(f, ast.Attribute) and recv is not None:
                k0 = fr.cls if isinstance(f.value, ast.Name) and f.value.id in ('self', 'cls') else self.class_of(fr, f.value)
                fv = self._ctor_field(k0, f.attr, recv) if k0 is not None else None
            elif isinstance(f, ast.Name) and isinstance(st.env.get(f.id), ast.expr):
                fv = st.env[f.id]
            res = self._apply_value(fv, pos, kw, st, fr, raises)
            if res is not None:
                return res
        # the class of a callable *value* (an object constructed on this path)
        if callee is None and recv is not None and not isinstance(f, ast.Attribute) and isinstance(recv, ast.Call):
            k = self.class_named(fr.fi.module, recv.func)
            if k is None and self.objects and isinstance(recv.func, ast.Name):
                k = next((c for c, _ in self.ctors if c.name == recv.func.id), None)
            if k is not None:
                callee = k.find_method('__call__')
        if callee is None and self.objects and recv is not None and not isinstance(f, (ast.Attribute, ast.Name)) \
                and isinstance(recv, ast.Subscript):
            # an entry of a container into which the run has stored objects of one class only
            ks = self._elem_classes.get(canon(recv.value))
            if ks and len(ks) == 1 and None not in ks:
                callee = next(iter(ks.values())).find_method('__call__')
        # constructor?
        k = None
        if isinstance(f, ast.Name) and f.id == 'cls' and fr.cls is not None and 'cls' in fr.fi.params[:1]:
            k = fr.cls
        elif isinstance(f, (ast.Name, ast.Attribute)) and not (isinstance(f, ast.Name) and f.id in st.env):
            k = self.class_named(fr.fi.module, f)
        if k is not None:
            val = ast.Call(func=_name(k.name), args=pos, keywords=[ast.keyword(arg=(None if n.startswith('**') else n), value=v)
                                                                    for n, v in kw.items()])
            ev = Event('ctor', fr, c, st, name=k.name, args=pos, kwargs=kw, value=val, cls=k)
            self.ctors.append((k, ev))
            return [(val, st.event(ev))]
        if callee is not None and self._may_inline(callee, fr):
            decs = [d.split('.')[-1].split('(')[0] for d in callee.decorators()]
            is_method = callee.cls is not None and callee.qualname == f'{callee.cls.name}.{callee.name}'
            first = None
            cls = callee.cls
            self_val = fr.self_val if closure_env is not None or not is_method else None
            if closure_env is not None or (not is_method and '<locals>' in callee.qualname):
                cls = fr.cls
                self_val = fr.self_val
            if is_method and 'staticmethod' not in decs:
                if 'classmethod' in decs:
                    owner = fr.cls if (isinstance(f, ast.Attribute) and isinstance(f.value, ast.Name)
                                       and f.value.id in ('self', 'cls') and fr.cls is not None) else callee.cls
                    first, cls, self_val = _name(owner.name), owner, _name(owner.name)
                elif isinstance(f, ast.Attribute):
                    if self.class_named(fr.fi.module, f.value) is not None and not (
                            isinstance(f.value, ast.Name) and f.value.id in st.env):
                        first = None            # Class.method(obj, ...): the object is the first positional
                        self_val = pos[0] if pos else None
                    else:
                        first, self_val = recv, recv
                    if isinstance(f.value, ast.Name) and f.value.id == 'self' and fr.cls is not None \
                            and fr.cls.is_subclass_of(callee.cls.name):
                        cls = fr.cls
                elif callee.name == '__call__':
                    if recv is None and isinstance(f, ast.Name):
                        recv = st.env.get(f.id) if isinstance(st.env.get(f.id), ast.expr) else _name(f.id)
                    first, self_val = recv, recv
            env = self._bind_params(callee, pos, kw, first)
            return self._inline(callee, env, self_val, cls, st, fr, raises, closure_env)
        # not inlined: an event
        if isinstance(f, ast.Attribute):
            fv = ast.Attribute(value=recv, attr=f.attr, ctx=ast.Load())
        elif isinstance(f, ast.Name):
            v = st.env.get(f.id)
            fv = v if isinstance(v, ast.expr) else _name(f.id)
        else:
            fv = recv
        val = simp(ast.Call(func=fv, args=pos, keywords=[ast.keyword(arg=(None if n.startswith('**') else n), value=v)
                                                          for n, v in kw.items()]))
        if not isinstance(val, ast.Call):
            return [(val, st)]
        name = None
        if isinstance(f, ast.Name):
            name = None if f.id in st.env else (self.as_written(fr.fi.module.imports.get(f.id)) or f.id)
        elif isinstance(f, ast.Attribute):
            d = dotted_name(f)
            name = self.ext_name(fr, f) if d and d.split('.')[0] in fr.fi.module.imports and d.split('.')[0] not in st.env \
                else '.' + f.attr
        ev = Event('call', fr, c, st, name=name, args=pos, kwargs=kw, value=val,
                   target=(recv if isinstance(f, ast.Attribute) else None))
        return [(val, st.event(ev))]

    # ---------------------------------------------------------------- statements
    def block(self, stmts, st: St, fr: Fr):
        outs, cur = [], [st]
        for s in stmts:
            nxt = []
            for c in cur:
                for k, v, s2 in self.stmt(s, c, fr):
                    if k == 'fall':
                        nxt.append(s2)
                    else:
                        outs.append((k, v, s2))
            cur = nxt
            if len(cur) + len(outs) > self.cap:
                raise Undecided(f'more than {self.cap} paths through {fr.fi.qualname}')
            if not cur:
                break
        return outs + [('fall', None, c) for c in cur]

    def _target(self, t, val, st, fr, raises, node):
        """bind value to an assignment target; returns [St]"""
        if isinstance(t, ast.Name):
            return [st.bind(t.id, val)]
        if isinstance(t, (ast.Tuple, ast.List)):
            n = len(t.elts)
            if isinstance(val, (ast.Tuple, ast.List)) and len(val.elts) == n and not any(
                    isinstance(x, ast.Starred) for x in list(t.elts) + list(val.elts)):
                parts = list(val.elts)
            elif any(isinstance(x, ast.Starred) for x in t.elts):
                parts = [_call('_unpack', val, _const(i)) for i in range(n)]
            else:
                parts = [simp(ast.Subscript(value=val, slice=_const(i), ctx=ast.Load())) for i in range(n)]
            cur = [st]
            for x, p in zip(t.elts, parts):
                x = x.value if isinstance(x, ast.Starred) else x
                cur = [s2 for s in cur for s2 in self._target(x, p, s, fr, raises, node)]
            return cur
        if isinstance(t, ast.Attribute):
            out = []
            for b, s in self.ev(t.value, st, fr, raises):
                tgt = ast.Attribute(value=b, attr=t.attr, ctx=ast.Load())
                s = s.store(canon(tgt), val)
                out.append(s.event(Event('store', fr, node, s, target=tgt, value=val)))
            return out
        if isinstance(t, ast.Subscript):
            out = []
            # element store into a local literal table: keep the table a literal
            if isinstance(t.value, ast.Name) and isinstance(st.env.get(t.value.id), ast.Dict):
                for sl, s in self.ev(t.slice, st, fr, raises):
                    d = s.env[t.value.id]
                    if isinstance(sl, ast.Constant) or _dotted_const(sl):
                        keys, vals = list(d.keys), list(d.values)
                        for i, k in enumerate(keys):
                            if k is not None and distinct_consts(k, sl) is False:
                                vals[i] = val
                                break
                        else:
                            keys.append(sl)
                            vals.append(val)
                        out.append(s.bind(t.value.id, ast.Dict(keys=keys, values=vals)))
                    else:
                        out.append(s.bind(t.value.id, _call('_acc', _const(t.value.id))))
                return out
            for b, s in self._ev_noheap(t.value, st, fr, raises):
                for sl, s2 in self.ev(t.slice, s, fr, raises):
                    tgt = ast.Subscript(value=b, slice=sl, ctx=ast.Load())
                    if self.objects:
                        kc = next((c for c, _ in self.ctors if c.name == val.func.id), None) \
                            if isinstance(val, ast.Call) and isinstance(val.func, ast.Name) else None
                        self._elem_classes.setdefault(canon(b), {})[kc.name if kc is not None else None] = kc
                    s3 = s2.store(canon(tgt), val)
                    out.append(s3.event(Event('store', fr, node, s3, target=tgt, value=val)))
            return out
        return [st]

    def _ev_noheap(self, e, st, fr, raises):
        """value of the object expression of a store target: locals substituted, stored values not read back"""
        h = st.heap
        res = self.ev(e, st.but(heap={}), fr, raises)
        return [(v, s.but(heap={**h, **s.heap})) for v, s in res]

    def stmt(self, s: ast.stmt, st: St, fr: Fr):
        """[(kind, value, St)], kind in fall / return / raise / break / continue"""
        self._tick()
        raises: list = []
        out = self._stmt(s, st, fr, raises)
        return out + raises

    def _stmt(self, s, st, fr, raises):
        if isinstance(s, ast.Expr):
            res = []
            for v, s2 in self.ev(s.value, st, fr, raises):
                res.append(('fall', None, self._mutation(s.value, v, s2)))
            return res
        if isinstance(s, (ast.Assign, ast.AnnAssign)):
            if s.value is None:
                return [('fall', None, st)]
            tgts = s.targets if isinstance(s, ast.Assign) else [s.target]
            res = []
            for v, s2 in self.ev(s.value, st, fr, raises):
                cur = [s2]
                for t in tgts:
                    cur = [s4 for s3 in cur for s4 in self._target(t, v, s3, fr, raises, s)]
                res += [('fall', None, c) for c in cur]
            return res
        if isinstance(s, ast.AugAssign):
            load = ast.copy_location(type(s.target)(**{**{k: v for k, v in ast.iter_fields(s.target)}, 'ctx': ast.Load()}), s.target)
            res = []
            for cur_v, s1 in self.ev(load, st, fr, raises):
                for v, s2 in self.ev(s.value, s1, fr, raises):
                    nv = simp(ast.BinOp(left=cur_v, op=s.op, right=v))
                    if isinstance(s.target, ast.Name) and isinstance(s.op, ast.Add) and is_sym(cur_v, '_acc') \
                            and isinstance(v, (ast.List, ast.Tuple, ast.ListComp)):
                        # extending an accumulator: the same event as .extend(), the accumulator stays one
                        ev = Event('call', fr, ast.copy_location(ast.Call(func=ast.Attribute(value=s.target, attr='extend', ctx=ast.Load()),
                                                                          args=[s.value], keywords=[]), s), s2,
                                   name='.extend', args=[v], kwargs={}, value=nv, target=cur_v)
                        res.append(('fall', None, s2.event(ev)))
                        continue
                    res += [('fall', None, c) for c in self._target(s.target, nv, s2, fr, raises, s)]
            return res
        if isinstance(s, ast.Return):
            if s.value is None:
                return [('return', _const(None), st)]
            return [('return', v, s2) for v, s2 in self.ev(s.value, st, fr, raises)]
        if isinstance(s, ast.Raise):
            res = []
            for v, s2 in (self.ev(s.exc, st, fr, raises) if s.exc is not None else [(None, st)]):
                res.append(('raise', v, s2.event(Event('raise', fr, s, s2, value=v))))
            return res
        if isinstance(s, ast.If):
            res = []
            for t, s1 in self.ev(s.test, st, fr, raises):
                for pol, s2 in self.fork(s1, t):
                    res += self.block(s.body if pol else s.orelse, s2, fr)
            return res
        if isinstance(s, ast.Match):
            return self._match(s, st, fr, raises)
        if isinstance(s, (ast.For, ast.AsyncFor)):
            return self._for(s, st, fr, raises)
        if isinstance(s, ast.While):
            return self._loop_summary(s, None, s.body, s.orelse, st, fr, raises, test=s.test)
        if isinstance(s, ast.Try):
            return self._try(s, st, fr)
        if isinstance(s, (ast.With, ast.AsyncWith)):
            cur = [st]
            for it in s.items:
                nxt = []
                for c in cur:
                    for v, s2 in self.ev(it.context_expr, c, fr, raises):
                        if it.optional_vars is not None:
                            nxt += self._target(it.optional_vars, v, s2, fr, raises, s)
                        else:
                            nxt.append(s2)
                cur = nxt
            res = []
            for c in cur:
                res += self.block(s.body, c, fr)
            return res
        if isinstance(s, ast.Assert):
            res = []
            for t, s1 in self.ev(s.test, st, fr, raises):
                s2 = self.assume(s1, t, True) if not (isinstance(t, ast.Call) and canon(t.func) == 'isinstance') else s1
                if s2 is not None:
                    res.append(('fall', None, s2))
            return res
        if isinstance(s, (ast.FunctionDef, ast.AsyncFunctionDef)):
            q = f'{fr.fi.qualname}.<locals>.{s.name}'
            fi = fr.fi.module.functions.get(q)
            if fi is None:
                # a closure defined in an inlined frame whose qualified name nests differently
                fi = next((g for k, g in fr.fi.module.functions.items() if g.node is s), None)
            return [('fall', None, st.bind(s.name, _Closure(fi)) if fi is not None else st)]
        if isinstance(s, ast.Break):
            return [('break', None, st)]
        if isinstance(s, ast.Continue):
            return [('continue', None, st)]
        if isinstance(s, ast.Delete):
            e = dict(st.env)
            for t in s.targets:
                if isinstance(t, ast.Name):
                    e.pop(t.id, None)
            return [('fall', None, st.but(env=e))]
        return [('fall', None, st)]      # pass, import, global, nonlocal, class

    def _mutation(self, src, val, st):
        """`local.append(x)` & co. on a local literal: keep it a literal outside loops, an accumulator inside"""
        if isinstance(src, ast.Call) and isinstance(src.func, ast.Attribute) and isinstance(src.func.value, ast.Name) \
                and src.func.attr in _MUTATORS and src.func.value.id in st.env and isinstance(val, ast.Call):
            nme = src.func.value.id
            cur = st.env[nme]
            if isinstance(cur, (ast.List, ast.Dict, ast.Set)) or is_sym(cur, '_acc'):
                if isinstance(cur, ast.List) and not st.loops and src.func.attr == 'append' and len(val.args) == 1:
                    return st.bind(nme, ast.List(elts=list(cur.elts) + [val.args[0]], ctx=ast.Load()))
                if isinstance(cur, ast.List) and not st.loops and src.func.attr == 'extend' and len(val.args) == 1 \
                        and isinstance(val.args[0], (ast.List, ast.Tuple)):
                    return st.bind(nme, ast.List(elts=list(cur.elts) + list(val.args[0].elts), ctx=ast.Load()))
                return st.bind(nme, _call('_acc', _const(nme)))
        return st

    def _match(self, s, st, fr, raises):
        res = []
        for subj, s1 in self.ev(s.subject, st, fr, raises):
            pending = [s1]
            for case in s.cases:
                nxt = []
                for c in pending:
                    conds = self._pattern(case.pattern, subj, c, fr, raises)
                    for cond, c2 in conds:
                        if case.guard is not None:
                            for g, c3 in self.ev(case.guard, c2, fr, raises):
                                full = simp(ast.BoolOp(op=ast.And(), values=[cond, g]))
                                for pol, c4 in self.fork(c3, full):
                                    if pol:
                                        res += self.block(case.body, c4, fr)
                                    else:
                                        nxt.append(c4)
                        else:
                            for pol, c3 in self.fork(c2, cond):
                                if pol:
                                    res += self.block(case.body, c3, fr)
                                else:
                                    nxt.append(c3)
                pending = nxt
            res += [('fall', None, c) for c in pending]
        return res

    def _pattern(self, p, subj, st, fr, raises):
        """[(condition, St)] for `subj` matching pattern p"""
        if isinstance(p, ast.MatchValue):
            return [(simp(ast.Compare(left=subj, ops=[ast.Eq()], comparators=[v])), s) for v, s in self.ev(p.value, st, fr, raises)]
        if isinstance(p, ast.MatchSingleton):
            return [(simp(ast.Compare(left=subj, ops=[ast.Is()], comparators=[_const(p.value)])), st)]
        if isinstance(p, ast.MatchAs):
            if p.pattern is None:
                return [(_const(True), st.bind(p.name, subj) if p.name else st)]
            return [(c, s.bind(p.name, subj) if p.name else s) for c, s in self._pattern(p.pattern, subj, st, fr, raises)]
        if isinstance(p, ast.MatchOr):
            alts = [self._pattern(q, subj, st, fr, raises) for q in p.patterns]
            if all(len(a) == 1 for a in alts):
                return [(simp(ast.BoolOp(op=ast.Or(), values=[a[0][0] for a in alts])), st)]
        return [(_call('_matches', subj, _const(ast.unparse(p))), st)]

    def literal_elements(self, it: ast.expr):
        if isinstance(it, (ast.Tuple, ast.List, ast.Set)) and not any(isinstance(x, ast.Starred) for x in it.elts):
            return list(it.elts)
        if isinstance(it, ast.Dict) and None not in it.keys:
            return list(it.keys)
        return None

    def _for(self, s, st, fr, raises):
        res = []
        todo = []
        for it, s1 in self.ev(s.iter, st, fr, raises):
            it2 = self.const_table(it, fr)
            elems = self.literal_elements(it2)
            if elems is None and is_sym(it2, 'zip') and 'zip' not in s1.env and not it2.keywords and len(it2.args) >= 2 \
                    and any(self.literal_elements(a) is not None and not isinstance(a, ast.Dict) for a in it2.args) \
                    and not any(isinstance(a, ast.Starred) for a in it2.args):
                # zip of a display with sequences that are not written out: as long as those are not shorter than the
                # display (a literal of the path) the pairs are (display[i], seq[i]); otherwise the loop is summarised
                n = min(len(a.elts) for a in it2.args if isinstance(a, DISPLAY))
                longer = [a for a in it2.args if not isinstance(a, DISPLAY)]
                cond = simp(ast.BoolOp(op=ast.And(), values=[
                    ast.Compare(left=_call('len', a), ops=[ast.GtE()], comparators=[_const(n)]) for a in longer]))
                pairs = [ast.Tuple(elts=[a.elts[i] if isinstance(a, DISPLAY) else ast.Subscript(value=a, slice=_const(i), ctx=ast.Load())
                                         for a in it2.args], ctx=ast.Load()) for i in range(n)]
                for pol, s2 in self.fork(s1, cond):
                    todo.append((it, s2, pairs if pol else None))
                continue
            todo.append((it, s1, elems))
        for it, s1, elems in todo:
            if elems is None or len(elems) > 24:
                res += self._loop_summary(s, it, s.body, s.orelse, s1, fr, raises)
                continue
            cur = [s1]
            broke = []
            for el in elems:
                nxt = []
                for c in cur:
                    for c2 in self._target(s.target, el, c, fr, raises, s):
                        for k, v, c3 in self.block(s.body, c2, fr):
                            if k in ('fall', 'continue'):
                                nxt.append(c3)
                            elif k == 'break':
                                broke.append(c3)
                            else:
                                res.append((k, v, c3))
                cur = nxt
                if len(cur) > self.cap:
                    raise Undecided('too many paths in an unrolled loop')
            for c in cur:
                res += self.block(s.orelse, c, fr) if s.orelse else [('fall', None, c)]
            res += [('fall', None, c) for c in broke]
        return res

    def _loop_summary(self, s, it, body, orelse, st, fr, raises, test=None):
        """one symbolic iteration: locals written in the loop are unknown on entry and after it"""
        mod = _assigned_in(body)
        # a local the loop only ever extends (`x += [...]`, `x.append(...)`) is an accumulator, not an unknown
        grown = {x.target.id for b in body for x in walk_no_nested(b)
                 if isinstance(x, ast.AugAssign) and isinstance(x.target, ast.Name) and isinstance(x.op, ast.Add)}
        aug = {id(x.target) for b in body for x in walk_no_nested(b) if isinstance(x, ast.AugAssign)}
        other = {x.id for b in body for x in walk_no_nested(b)
                 if isinstance(x, ast.Name) and isinstance(x.ctx, (ast.Store, ast.Del)) and id(x) not in aug}
        e = dict(st.env)
        for nme in mod:
            if nme in e and not isinstance(e[nme], _Closure):
                if nme in grown and nme not in other and (isinstance(e[nme], (ast.List, ast.Tuple)) or is_sym(e[nme], '_acc')):
                    e[nme] = _call('_acc', _const(nme))
                else:
                    e[nme] = _call('_loopvar', _const(nme))
        tag = canon(it) if it is not None else 'while ' + canon(test)
        entry = st.but(env=e, loops=st.loops + ((tag, s),))
        def starts_of(entry):
            if it is not None:
                each = _call('_each', it)
                # `for k, v in m.items()`: v is m[k]
                core = it
                while isinstance(core, ast.Call) and canon(core.func) in ('list', 'tuple', 'sorted', 'iter') and len(core.args) == 1:
                    core = core.args[0]
                if isinstance(core, ast.Call) and isinstance(core.func, ast.Attribute) and core.func.attr == 'items' and not core.args \
                        and isinstance(s.target, (ast.Tuple, ast.List)) and len(s.target.elts) == 2:
                    k = ast.Subscript(value=each, slice=_const(0), ctx=ast.Load())
                    v = ast.Subscript(value=core.func.value, slice=k, ctx=ast.Load())
                    return self._target(s.target, ast.Tuple(elts=[k, v], ctx=ast.Load()), entry, fr, raises, s)
                return self._target(s.target, each, entry, fr, raises, s)
            if test is not None:
                out = []
                for t, s1 in self.ev(test, entry, fr, raises):
                    s2 = self.assume(s1, t, True)
                    if s2 is not None:
                        out.append(s2)
                return out
            return [entry]
        # first pass: which object fields does an iteration store?  On entry to an arbitrary iteration they hold what
        # an earlier iteration left there, so they are unknown (read back as the plain attribute), like the locals
        raises0 = list(raises)
        touched = set()
        for c in starts_of(entry):
            for k, v, c2 in self.block(body, c, fr):
                touched |= {hk for hk, hv in c2.heap.items() if st.heap.get(hk) is not hv}
        del raises[:]
        raises.extend(raises0)
        if touched:
            h2 = {hk: hv for hk, hv in entry.heap.items() if hk not in touched}
            for hk in touched:
                try:
                    h2[hk] = _call('_cur', ast.parse(hk, mode='eval').body)     # the value an earlier iteration left
                except SyntaxError:
                    pass
            entry = entry.but(heap=h2)
        res = []
        zero = st.but(env=dict(e))
        merged_env, merged_events = dict(e), ()
        merged_heap = {hk: hv for hk, hv in st.heap.items() if hk not in touched}
        iterated = False
        for c in starts_of(entry):
            for k, v, c2 in self.block(body, c, fr):
                if k in ('fall', 'continue', 'break'):
                    # what one iteration did to locals and fields is unknown afterwards; the events and accumulators of
                    # every way through the body are kept together: any number of iterations may have happened
                    iterated = True
                    for nme, val in c2.env.items():
                        if is_sym(val, '_acc'):
                            merged_env[nme] = val
                    merged_events += c2.events[len(st.events):] + (Event('endpath', fr, s, c2, name=k, value=None),)
                else:
                    res.append((k, v, c2))
        res.append(('fall', None, zero))
        if iterated:
            mark = (_call('_in_loop', _const(tag)), True)
            res.append(('fall', None, st.but(env=merged_env, heap=merged_heap, events=st.events + merged_events,
                                              pc=st.pc + (mark,))))
        return res

    def _try(self, s, st, fr):
        res = []
        body_raises: list = []
        inner = st.but(prot=st.prot + (1 if s.handlers else 0))
        mod = _assigned_in(s.body)
        outs = []
        for k, v, c in self.block(s.body, inner, fr):
            (body_raises if k == 'raise' else outs).append((k, v, c))
        for k, v, c in outs:
            c = c.but(prot=st.prot)
            if k == 'fall' and s.orelse:
                outs2 = self.block(s.orelse, c, fr)
            else:
                outs2 = [(k, v, c)]
            for k2, v2, c2 in outs2:
                res += self._finally(s, k2, v2, c2, fr)
        # handlers: entered from an explicit raise in the body, or from an exception inside a call / operation
        if s.handlers:
            e = dict(st.env)
            for nme in mod:
                e[nme] = _call('_maybe', _const(nme))
            implicit = st.but(env=e)
            for h in s.handlers:
                ty = canon(h.type) if h.type is not None else 'BaseException'
                entries = [self.assume(implicit, _call('_raised', _const(ty), _const(getattr(s, 'lineno', 0))), True)]
                for k, v, c in body_raises:
                    entries.append(c.but(prot=st.prot))
                for c in entries:
                    if c is None:
                        continue
                    if h.name:
                        c = c.bind(h.name, _call('_exception', _const(ty)))
                    for k2, v2, c2 in self.block(h.body, c.but(prot=st.prot), fr):
                        res += self._finally(s, k2, v2, c2, fr)
        else:
            for k, v, c in body_raises:
                res += self._finally(s, k, v, c.but(prot=st.prot), fr)
        return res

    def _finally(self, s, k, v, c, fr):
        if not s.finalbody:
            return [(k, v, c)]
        out = []
        for k2, v2, c2 in self.block(s.finalbody, c, fr):
            out.append((k, v, c2) if k2 == 'fall' else (k2, v2, c2))
        return out

    # ---------------------------------------------------------------- literal tables behind names
    def const_table(self, e: ast.expr, fr: Fr, depth=0):
        """the literal display behind a module-level / class-level name (mutable tables are not folded by the
        loader), looking through list()/tuple()/sorted()-free wrappers; e itself when it is not such a name"""
        if depth > 4:
            return e
        if isinstance(e, (ast.Tuple, ast.List, ast.Set, ast.Dict)):
            return e
        m = fr.fi.module
        v = None
        if isinstance(e, ast.Name):
            r = self.prog.resolve_name(m, e.id)
            if isinstance(r, tuple) and r[0] == 'const':
                v, m2 = r[1].constants.get(r[2]), r[1]
                if v is not None:
                    r = self._fold_in(v, m2, depth)
                    return r if isinstance(r, (ast.Tuple, ast.List, ast.Set, ast.Dict, ast.Constant)) else e
        elif isinstance(e, ast.Attribute) and isinstance(e.value, ast.Name):
            k = fr.cls if e.value.id in ('self', 'cls') else self.class_named(m, e.value)
            if k is None and isinstance(fr.self_val, ast.Name) and e.value.id == fr.self_val.id:
                k = fr.cls
            if k is not None:
                for c in k.mro():
                    ca = c.class_assignments()
                    if ca.get(e.attr) is not None:
                        r = self._fold_in(ca[e.attr], c.module, depth)
                        return r if isinstance(r, (ast.Tuple, ast.List, ast.Set, ast.Dict, ast.Constant)) else e
        elif isinstance(e, (ast.Call, ast.Subscript)):
            kids = {}
            for nme, val in ast.iter_fields(e):
                if isinstance(val, ast.expr):
                    kids[nme] = self.const_table(val, fr, depth + 1)
                elif isinstance(val, list) and all(isinstance(x, ast.expr) for x in val):
                    kids[nme] = [self.const_table(x, fr, depth + 1) for x in val]
            # TABLE.items() / .keys() / .values() / .get(k) / .index(x) of a module- or class-level table: the receiver
            # of the method is the table, not an attribute of a class
            f = e.func if isinstance(e, ast.Call) else None
            if isinstance(f, ast.Attribute) and kids.get('func') is f and f.attr in ('items', 'keys', 'values', 'get', 'index') \
                    and isinstance(f.value, (ast.Name, ast.Attribute)):
                o = self.const_table(f.value, fr, depth + 1)
                if isinstance(o, (ast.Tuple, ast.List, ast.Dict)):
                    kids['func'] = ast.Attribute(value=o, attr=f.attr, ctx=ast.Load())
            r = simp(type(e)(**{**{k: v for k, v in ast.iter_fields(e)}, **kids}))
            if isinstance(r, (ast.Tuple, ast.List, ast.Set, ast.Dict, ast.Constant)):
                return r
        return e

    def _fold_in(self, v, m, depth):
        """fold a constant's defining expression in its own module (names of other constants looked up there)"""
        if isinstance(v, (ast.Constant,)):
            return v
        fake = Fr(FunctionInfo('<module>', ast.FunctionDef(name='<module>', args=ast.arguments(
            posonlyargs=[], args=[], kwonlyargs=[], kw_defaults=[], defaults=[]), body=[], decorator_list=[]), m, None),
            None, None, ())

        def go(x, d):
            if isinstance(x, (ast.Name, ast.Attribute)) and d < 5:
                r = self.const_table(x, fake, d + 1)
                return r
            if isinstance(x, ast.expr):
                kids = {}
                for nme, val in ast.iter_fields(x):
                    if isinstance(val, ast.expr):
                        kids[nme] = go(val, d + 1)
                    elif isinstance(val, list) and val and all(isinstance(y, ast.expr) or y is None for y in val):
                        kids[nme] = [go(y, d + 1) if y is not None else None for y in val]
                return simp(type(x)(**{**{k: vv for k, vv in ast.iter_fields(x)}, **kids}))
            return x
        return go(v, depth)


# ======================================================================================================
# Evaluation of an *extracted* expression over an explicit model (truth tables, sample rows)
# ======================================================================================================
# Guards and small pure expressions taken out of the repository are evaluated on explicit sample values (the five
# points of the ROCD axis around the tolerance, a sample PTF row, a sample mass list ...).  Only a white list of pure
# builtins / str / list / re operations is understood; anything else is `Unknown` and the rule that asked decides
# what that means (usually: undecided).  Nothing of the repository is imported or run.

class Unknown(Exception):
    pass


class Sym:
    """an opaque constant (an enum member): equal to itself only"""

    def __init__(self, text):
        self.text = text

    def __eq__(self, o):
        return isinstance(o, Sym) and o.text == self.text

    def __hash__(self):
        return hash(self.text)

    def __repr__(self):
        return self.text


_NAN = float('nan')
_PURE = {
    'len': len, 'int': int, 'float': float, 'abs': abs, 'min': min, 'max': max, 'all': all, 'any': any, 'sum': sum,
    'sorted': sorted, 'list': list, 'tuple': tuple, 'set': set, 'str': str, 'bool': bool, 'isinstance': isinstance,
    'round': round, 'range': range, 'enumerate': enumerate, 'zip': zip, 'dict': dict, 'reversed': reversed,
    'frozenset': frozenset, 'type': type, 'bytes': bytes, 'object': object, 'map': map, 'filter': filter, 'next': next,
    'iter': iter, 'divmod': divmod, 'repr': repr,
}
_DOTTED = {
    'np.abs': abs, 'numpy.abs': abs, 'np.absolute': abs, 'numpy.absolute': abs, 'np.fabs': abs, 'math.fabs': abs,
    'np.nan': _NAN, 'numpy.nan': _NAN, 'math.nan': _NAN, 'np.inf': float('inf'), 'math.inf': float('inf'),
    'numpy.inf': float('inf'), 'np.isnan': math.isnan, 'math.isnan': math.isnan, 'np.isfinite': math.isfinite,
    'math.isfinite': math.isfinite, 'np.array': list, 'np.asarray': list, 'numpy.array': list, 'numpy.asarray': list,
    'np.float64': float, 'np.sign': lambda x: (x > 0) - (x < 0), 'math.copysign': math.copysign,
    're.findall': _re.findall, 're.search': _re.search, 're.match': _re.match, 're.fullmatch': _re.fullmatch,
    're.compile': _re.compile, 're.split': _re.split, 're.sub': _re.sub, 're.finditer': _re.finditer,
    'ValueError': ValueError, 'TypeError': TypeError, 'IndexError': IndexError, 'KeyError': KeyError, 'Exception': Exception,
    'operator.lt': operator.lt, 'operator.gt': operator.gt, 'operator.le': operator.le, 'operator.ge': operator.ge,
}
_METHODS = {
    str: {'strip', 'lstrip', 'rstrip', 'isdigit', 'isnumeric', 'isdecimal', 'split', 'rsplit', 'lower', 'upper', 'startswith',
          'endswith', 'replace', 'isspace', 'partition', 'rpartition', 'splitlines', 'find', 'index', 'count', 'join',
          'casefold', 'isalpha', 'isalnum', 'removeprefix', 'removesuffix', 'format', 'zfill', 'title'},
    list: {'index', 'count', 'copy'}, tuple: {'index', 'count'},
    dict: {'get', 'keys', 'values', 'items', 'copy'},
    float: {'is_integer'}, int: {'bit_length'}, set: {'union', 'intersection', 'issubset', 'issuperset', 'copy'},
    frozenset: {'union', 'intersection', 'issubset', 'issuperset'},
    _re.Pattern: {'findall', 'search', 'match', 'fullmatch', 'split', 'sub', 'finditer'},
    _re.Match: {'group', 'groups', 'start', 'end', 'span', 'groupdict'},
}
_BINOPS = {ast.Add: operator.add, ast.Sub: operator.sub, ast.Mult: operator.mul, ast.Div: operator.truediv,
           ast.FloorDiv: operator.floordiv, ast.Mod: operator.mod, ast.Pow: operator.pow, ast.BitAnd: operator.and_,
           ast.BitOr: operator.or_, ast.BitXor: operator.xor}
_CMPOPS = {ast.Eq: operator.eq, ast.NotEq: operator.ne, ast.Lt: operator.lt, ast.LtE: operator.le, ast.Gt: operator.gt,
           ast.GtE: operator.ge, ast.Is: lambda a, b: a is b or (isinstance(a, Sym) and a == b),
           ast.IsNot: lambda a, b: not (a is b or (isinstance(a, Sym) and a == b)),
           ast.In: lambda a, b: a in b, ast.NotIn: lambda a, b: a not in b}


def ceval(e: ast.AST, env: dict, atom=None):
    """value of expression e with names from env; `atom(node)` may give a value to any sub-expression first
    (return NotImplemented to decline).  Raises Unknown for anything outside the white list; a Python exception
    raised by a white-listed operation (int('x'), [][0]) propagates as such."""
    def go(n, env):
        if atom is not None:
            r = atom(n)
            if r is not NotImplemented:
                return r
        if isinstance(n, ast.Constant):
            return n.value
        if isinstance(n, ast.Name):
            if n.id in env:
                return env[n.id]
            if n.id in _PURE:
                return _PURE[n.id]
            if n.id in _DOTTED:
                return _DOTTED[n.id]
            raise Unknown(n.id)
        if isinstance(n, ast.Attribute):
            d = dotted_name(n)
            if d in _DOTTED:
                return _DOTTED[d]
            if d and d.split('.')[-1].isupper() and d.split('.')[0] not in env and len(d.split('.')) == 2:
                return Sym(d)
            v = go(n.value, env)
            if isinstance(v, (int, float)) and not isinstance(v, bool):
                if n.attr == 'abs':
                    return lambda: abs(v)
                if n.attr == 'between':
                    return lambda lo, hi, inclusive='both': (lo <= v <= hi) if inclusive == 'both' else (
                        lo < v < hi if inclusive == 'neither' else (lo <= v < hi if inclusive == 'left' else lo < v <= hi))
                if n.attr in ('lt', 'le', 'gt', 'ge', 'eq', 'ne'):
                    return lambda o: getattr(operator, n.attr)(v, o)
                if n.attr in ('item', 'tolist'):
                    return lambda: v
            for ty, names in _METHODS.items():
                if isinstance(v, ty) and n.attr in names:
                    return getattr(v, n.attr)
            raise Unknown(f'.{n.attr} of {type(v).__name__}')
        if isinstance(n, ast.Call):
            f = go(n.func, env)
            ok = f in _PURE.values() or (not isinstance(f, float) and any(f is x for x in _DOTTED.values())) or (
                getattr(f, '__self__', None) is not None and any(
                    isinstance(f.__self__, ty) and f.__name__ in names for ty, names in _METHODS.items())) or (
                getattr(f, '__name__', '') == '<lambda>' and getattr(f, '__module__', '') == __name__)
            if not ok or not callable(f):
                raise Unknown(f'call of {ast.unparse(n.func)[:40]}')
            args = []
            for a in n.args:
                if isinstance(a, ast.Starred):
                    args += list(go(a.value, env))
                else:
                    args.append(go(a, env))
            kw = {}
            for k in n.keywords:
                if k.arg is None:
                    kw.update(go(k.value, env))
                else:
                    kw[k.arg] = go(k.value, env)
            r = f(*args, **kw)
            if isinstance(r, (map, filter, zip, enumerate, reversed)) or type(r).__name__.endswith('iterator'):
                r = list(r)
            return r
        if isinstance(n, ast.BoolOp):
            r = None
            for v in n.values:
                r = go(v, env)
                if bool(r) != isinstance(n.op, ast.And):
                    return r
            return r
        if isinstance(n, ast.UnaryOp):
            v = go(n.operand, env)
            if isinstance(n.op, ast.Not):
                return not v
            if isinstance(n.op, ast.USub):
                return -v
            if isinstance(n.op, ast.UAdd):
                return +v
            if isinstance(n.op, ast.Invert):
                return (not v) if isinstance(v, bool) else ~v
        if isinstance(n, ast.BinOp) and type(n.op) in _BINOPS:
            return _BINOPS[type(n.op)](go(n.left, env), go(n.right, env))
        if isinstance(n, ast.Compare):
            left = go(n.left, env)
            for op, c in zip(n.ops, n.comparators):
                right = go(c, env)
                if not _CMPOPS[type(op)](left, right):
                    return False
                left = right
            return True
        if isinstance(n, ast.IfExp):
            return go(n.body, env) if go(n.test, env) else go(n.orelse, env)
        if isinstance(n, (ast.Tuple, ast.List, ast.Set)):
            out = []
            for x in n.elts:
                if isinstance(x, ast.Starred):
                    out += list(go(x.value, env))
                else:
                    out.append(go(x, env))
            return tuple(out) if isinstance(n, ast.Tuple) else (list(out) if isinstance(n, ast.List) else set(out))
        if isinstance(n, ast.Dict):
            d = {}
            for k, v in zip(n.keys, n.values):
                if k is None:
                    d.update(go(v, env))
                else:
                    d[go(k, env)] = go(v, env)
            return d
        if isinstance(n, ast.Subscript):
            v = go(n.value, env)
            if isinstance(n.slice, ast.Slice):
                s = n.slice
                return v[slice(*(go(x, env) if x is not None else None for x in (s.lower, s.upper, s.step)))]
            return v[go(n.slice, env)]
        if isinstance(n, ast.JoinedStr):
            out = ''
            for v in n.values:
                if isinstance(v, ast.Constant):
                    out += str(v.value)
                elif isinstance(v, ast.FormattedValue) and v.format_spec is None:
                    x = go(v.value, env)
                    out += {-1: str, 115: str, 114: repr, 97: ascii}[v.conversion](x)
                else:
                    raise Unknown('format spec')
            return out
        if isinstance(n, ast.Lambda):
            names = [a.arg for a in n.args.args]
            if n.args.vararg or n.args.kwonlyargs or n.args.kwarg or n.args.defaults:
                raise Unknown('lambda signature')
            return (lambda *a: go(n.body, {**env, **dict(zip(names, a))}))
        if isinstance(n, (ast.ListComp, ast.SetComp, ast.GeneratorExp, ast.DictComp)):
            res = []

            def loop(i, env):
                if i == len(n.generators):
                    if isinstance(n, ast.DictComp):
                        res.append((go(n.key, env), go(n.value, env)))
                    else:
                        res.append(go(n.elt, env))
                    return
                g = n.generators[i]
                for item in go(g.iter, env):
                    e2 = dict(env)
                    _bind_target(g.target, item, e2)
                    if all(go(c, e2) for c in g.ifs):
                        loop(i + 1, e2)
            loop(0, env)
            if isinstance(n, ast.DictComp):
                return dict(res)
            return set(res) if isinstance(n, ast.SetComp) else res
        if isinstance(n, ast.NamedExpr):
            v = go(n.value, env)
            env[n.target.id] = v
            return v
        raise Unknown(type(n).__name__)
    return go(e, dict(env))


def _bind_target(t, v, env):
    if isinstance(t, ast.Name):
        env[t.id] = v
    elif isinstance(t, (ast.Tuple, ast.List)):
        vs = list(v)
        if len(vs) != len(t.elts):
            raise Unknown('unpack')
        for a, b in zip(t.elts, vs):
            _bind_target(a, b, env)
    else:
        raise Unknown('target')


def rule_constants(ctx):
    m = ctx.prog.module(UNITS)
    consts = module_constants(m)
    names = [k for k in consts if re.fullmatch(r'[A-Z]+(_[A-Z]+)*_TO_[A-Z]+(_[A-Z]+)*', k)]
    pairs = 0
    for n in sorted(names):
        a, b = n.split('_TO_')
        inv = f'{b}_TO_{a}'
        if inv in consts and n < inv:
            pairs += 1
            prod = consts[n] * consts[inv]
            ok = prod == 1
            ctx.ob('C06-R1', (m.relpath, '<module>'), f'{n} · {inv} = {prod}', ok,
                   'exact reciprocals' if ok else
                   (f'{n} and {inv} are not reciprocal (product {float(prod):.12g}): a tabulated flight level '
                    'expressed in metres does not convert back to the table\'s level and is rejected / missed'),
                   line=next((s.lineno for s in m.tree.body if isinstance(s, ast.Assign) and norm(s.targets[0]) in (n, inv)), 0))
    ctx.floor('C06-R1', pairs, 3, 'reciprocal unit constant pairs')
    # FL is hundreds of feet
    for k, want in (('METERS_TO_FL', consts.get('METERS_TO_FEET', 0) / 100), ('FL_TO_METERS', 100 * consts.get('FEET_TO_METERS', 0))):
        ok = consts.get(k) == want
        ctx.ob('C06-R1', (m.relpath, '<module>'), f'{k} = {consts.get(k)}', ok,
               'one flight level is 100 ft' if ok else f'{k} is not derived from the foot (100 ft per FL)')
    ok = consts.get('FEET_TO_METERS') == Fraction('0.3048')
    ctx.ob('C06-R1', (m.relpath, '<module>'), f'FEET_TO_METERS = {consts.get("FEET_TO_METERS")}', ok,
           'international foot' if ok else 'foot length changed', nontrivial=False)
    ok = consts.get('FPM_TO_MPS') == Fraction('0.3048') / 60 and consts.get('MINUTES_TO_SECONDS') == 60
    ctx.ob('C06-R1', (m.relpath, '<module>'), 'FPM_TO_MPS = FEET_TO_METERS / 60', ok,
           'feet per minute to metres per second' if ok else 'FPM_TO_MPS is inconsistent with foot and minute', nontrivial=False)
    return consts


# ======================================================================================================
# Recognisers shared by the rules
# ======================================================================================================
# role table (oracle: the meaning of the Performance outputs): output field -> performance-table column
OUTPUT_COLUMN = {'true_airspeed': 'tas', 'rate_of_climb': 'rocd', 'fuel_flow': 'fuel_flow'}
# flight phase -> sign of the rate of climb of its sub-table (oracle: the property statement / BADA PTF layout)
PHASE_BAND = {'CLIMB': 'P', 'CRUISE': 'Z', 'DESCEND': 'N'}
FILTER_BAND = {'POSITIVE': 'P', 'ZERO': 'Z', 'NEGATIVE': 'N'}
# interpolation / clamping routines that answer outside their data instead of refusing
CLAMPING = {
    'numpy.interp': 'returns the end values outside the coordinate range (or left=/right= fill values) instead of raising',
    'numpy.clip': 'moves a value outside the range onto its edge', 'numpy.minimum': 'clamps', 'numpy.maximum': 'clamps',
    'numpy.searchsorted': 'places a value outside the range at the edge',
    'scipy.interpolate.interp1d': 'extrapolates / fills outside the range when asked to, never raises with fill_value set',
    'scipy.interpolate.RegularGridInterpolator': 'does not raise outside the grid unless bounds_error is left on',
    'scipy.interpolate.griddata': 'fills with NaN / nearest outside the hull',
    'scipy.interpolate.LinearNDInterpolator': 'fills with NaN outside the hull',
    'scipy.interpolate.NearestNDInterpolator': 'answers with the nearest node outside the hull',
    'scipy.interpolate.RectBivariateSpline': 'evaluates outside the grid at the edge',
    'scipy.interpolate.interp2d': 'extrapolates',
    '.clip': 'moves a value outside the range onto its edge',
}
INTERPN = 'scipy.interpolate.interpn'


def _unwrap_scalar(e):
    """the array expression inside float(x[0]) / x.item() / np.float64(x)[()] / x.squeeze() / np.asarray(x)"""
    while True:
        if isinstance(e, ast.Call) and isinstance(e.func, ast.Name) and e.func.id in ('float',) and len(e.args) == 1 and not e.keywords:
            e = e.args[0]
        elif isinstance(e, ast.Call) and isinstance(e.func, ast.Attribute) and e.func.attr in ('item', 'squeeze', 'ravel', 'flatten', 'tolist') \
                and not e.args:
            e = e.func.value
        elif isinstance(e, ast.Call) and dotted_name(e.func) in ('np.float64', 'numpy.float64', 'np.asarray', 'np.squeeze', 'np.ravel') \
                and len(e.args) == 1:
            e = e.args[0]
        elif isinstance(e, ast.Subscript) and isinstance(e.slice, ast.Constant) and e.slice.value in (0, -1, ()):
            e = e.value
        elif isinstance(e, ast.Subscript) and isinstance(e.slice, ast.Tuple) and not e.slice.elts:
            e = e.value
        else:
            return e


def _point_elements(e):
    """components of a query point written as a tuple / list / np.array([...]) / np.asarray((...)), also when it is
    packed as a batch of one point ([[fl, mass]], np.atleast_2d(...), x[None, :], x.reshape(1, -1))"""
    while True:
        if isinstance(e, ast.Call) and dotted_name(e.func) in ('np.array', 'np.asarray', 'numpy.array', 'numpy.asarray', 'np.atleast_1d',
                                                               'np.atleast_2d', 'numpy.atleast_1d', 'numpy.atleast_2d', 'tuple', 'list') \
                and len(e.args) >= 1 and all(k.arg in ('dtype', 'copy') for k in e.keywords):
            e = e.args[0]
        elif isinstance(e, ast.Call) and isinstance(e.func, ast.Attribute) and e.func.attr == 'reshape' \
                and canon(ast.Tuple(elts=list(e.args), ctx=ast.Load())) in ('(1, -1)', '((1, -1),)') and not e.keywords:
            e = e.func.value
        elif isinstance(e, ast.Subscript) and canon(e.slice) in ('None', 'np.newaxis', '(None, :)', '(np.newaxis, :)', '(None, ...)',
                                                                '(np.newaxis, ...)'):
            e = e.value
        elif isinstance(e, (ast.Tuple, ast.List)) and len(e.elts) == 1 and isinstance(e.elts[0], (ast.Tuple, ast.List)):
            e = e.elts[0]           # a batch of one point
        else:
            break
    if isinstance(e, (ast.Tuple, ast.List)) and not any(isinstance(x, ast.Starred) for x in e.elts):
        return list(e.elts)
    return None


def _col_of(e):
    """(table expression, column name) of a column accessor T.col / T['col'] / T.loc[:, 'col']"""
    if isinstance(e, ast.Attribute) and not isinstance(e.value, ast.Constant):
        return e.value, e.attr
    if isinstance(e, ast.Subscript) and isinstance(e.slice, ast.Constant) and isinstance(e.slice.value, str):
        return e.value, e.slice.value
    return None


def _split_filter(e):
    """(table, mask) of T[mask] / T.loc[mask] with copies and index resets looked through; (e, None) otherwise"""
    while isinstance(e, ast.Call) and isinstance(e.func, ast.Attribute) and e.func.attr in ('copy', 'reset_index') \
            and all(isinstance(a, ast.Constant) for a in e.args) and all(isinstance(k.value, ast.Constant) for k in e.keywords):
        e = e.func.value
    if isinstance(e, ast.Subscript) and not isinstance(e.slice, (ast.Constant, ast.Slice, ast.List, ast.Tuple)):
        base = e.value
        if isinstance(base, ast.Attribute) and base.attr == 'loc':
            base = base.value
        return base, e.slice
    return e, None


class RocdAxis:
    """the ROCD axis around the zero tolerance, on which sub-table masks and phase predicates are evaluated"""

    def __init__(self, table_cls):
        self.consts = {}
        for c in table_cls.mro():
            for k, v in c.class_assignments().items():
                if v is not None and isinstance(const_value(v), (int, float)) and not isinstance(const_value(v), bool):
                    self.consts.setdefault(k, float(const_value(v)))
        self.tol = next((v for k, v in self.consts.items() if 'TOL' in k.upper() and v > 0), None)
        t = self.tol or 1.0
        self.points = (-2 * t, -t, -t / 2, 0.0, t / 2, t, 2 * t)

    def where(self, pred: ast.expr, is_value) -> frozenset | None:
        """indices of the axis points at which pred holds; is_value(node) says which sub-expressions are the ROCD"""
        out = set()
        for i, r in enumerate(self.points):
            def atom(n, r=r):
                if is_value(n):
                    return r
                if isinstance(n, ast.Attribute) and n.attr in self.consts and n.attr.isupper():
                    return self.consts[n.attr]
                return NotImplemented
            try:
                if ceval(pred, {}, atom):
                    out.add(i)
            except Unknown:
                return None
            except Exception:
                return None
        return frozenset(out)

    @staticmethod
    def band(idx: frozenset | None) -> str | None:
        if not idx:
            return None
        if idx <= {0, 1}:
            return 'N'
        if idx <= {5, 6}:
            return 'P'
        if 3 in idx and idx <= {1, 2, 3, 4, 5}:
            return 'Z'
        return None

    def mask_band(self, mask: ast.expr, table: ast.expr):
        """(band, axis indices) of a row mask over the ROCD column of `table`"""
        tt = canon(table)

        def is_value(n):
            c = _col_of(n)
            return c is not None and c[1] == 'rocd' and canon(c[0]) == tt
        idx = self.where(mask, is_value)
        return self.band(idx), idx

    def gen_band(self, call: ast.expr, over: str):
        """band of P in all(P(v) for v in <over>)"""
        if not (isinstance(call, ast.Call) and canon(call.func) == 'all' and len(call.args) == 1
                and isinstance(call.args[0], (ast.GeneratorExp, ast.ListComp)) and len(call.args[0].generators) == 1):
            return None
        g = call.args[0].generators[0]
        if not isinstance(g.target, ast.Name) or canon(g.iter) != over or g.ifs:
            return None
        v = g.target.id
        return self.band(self.where(call.args[0].elt, lambda n: isinstance(n, ast.Name) and n.id == v))


def _units_consts(prog):
    return module_constants(prog.module(UNITS))


def _nf(e, consts):
    try:
        return normal_form(clone(e), {}, consts)
    except AlgebraError:
        return None


def _coefficient(nf, atom: str):
    """c when the normal form is exactly c * atom (c a non-zero constant), else None"""
    if nf is None or list(nf.den.keys()) != [()] or len(nf.num) != 1:
        return None
    (mono, c), = nf.num.items()
    if mono != ((atom, 1),) or c == 0:
        return None
    return c / nf.den[()]


# ======================================================================================================
# One form for every table look-up: interpn(grid, values, point, method, bounds policy)
# ======================================================================================================
# scipy's object interfaces to the same interpolation.  A look-up `obj(point)` on an object built as
# `Routine(grid, values, ...)` -- on the path, or kept in an attribute (a dict / tuple element of an attribute) by the
# constructor of the object whose method makes the look-up -- is read as interpn(grid, values, point) with the
# routine's method and bounds policy, so that every rule below sees one form.  What each routine does with a point
# outside its data is scipy's documented behaviour (oracle), decided by bounds_policy().
#   constructor parameters in positional order; which of them hold grid / values / method / bounds_error / fill_value
OBJECT_ROUTINES = {
    'scipy.interpolate.RegularGridInterpolator': ('points', 'values', 'method', 'bounds_error', 'fill_value'),
    'scipy.interpolate.interp1d': ('x', 'y', 'kind', 'axis', 'copy', 'bounds_error', 'fill_value', 'assume_sorted'),
}
ROLE_OF_PARAM = {'points': 'grid', 'x': 'grid', 'values': 'values', 'y': 'values', 'method': 'method', 'kind': 'method',
                 'bounds_error': 'bounds_error', 'fill_value': 'fill_value'}
# object routines that have no refusing mode at all
NEVER_REFUSE = ('scipy.interpolate.LinearNDInterpolator', 'scipy.interpolate.NearestNDInterpolator', 'scipy.interpolate.interp2d',
                'scipy.interpolate.RectBivariateSpline', 'scipy.interpolate.CloughTocher2DInterpolator')


def bounds_policy(routine: str, be, fv):
    """(refuses, text).  refuses is True when the routine raises for a point outside its data, False when it answers
    (text says with what), None when the arguments do not tell.
    interpn / RegularGridInterpolator: raise iff bounds_error is True, which is the default; fill_value is not looked
    at while they raise.  interp1d: bounds_error=None (default) raises unless fill_value == 'extrapolate';
    True raises; False fills."""
    is_true = isinstance(be, ast.Constant) and be.value is True
    fvt = f', fill_value={canon(fv)[:30]}' if fv is not None else ''
    if routine.endswith('.interp1d'):
        if be is None or (isinstance(be, ast.Constant) and be.value is None):
            if fv is None or isinstance(fv, (ast.Tuple, ast.List)) or (isinstance(fv, ast.Constant) and not isinstance(fv.value, str)) \
                    or canon(fv) in ('np.nan', 'numpy.nan', 'math.nan', "float('nan')"):
                return True, ''
            if isinstance(fv, ast.Constant) and fv.value == 'extrapolate':
                return False, "fill_value='extrapolate': a state outside the table is extrapolated instead of refused"
            return None, f'cannot tell whether fill_value={canon(fv)[:30]} asks interp1d to extrapolate'
        if is_true:
            return True, ''
        return False, f'bounds_error={canon(be)[:40]}{fvt}: a state outside the table is answered with the fill value (NaN by default) instead of refused'
    if be is None or is_true:
        return True, ''
    return False, f'bounds_error={canon(be)[:40]}{fvt}: a state outside the grid is extrapolated / filled (NaN by default) instead of refused'


# ------------------------------------------------------------------------------------------------------
# An explicit range test in place of the routine's own bounds checking
# ------------------------------------------------------------------------------------------------------
# A look-up whose routine is told not to refuse (bounds_error=False ...) still refuses every state outside the table
# when every path that reaches it has tested each component of the query against the two ends of its own grid axis,
# the other branch of the test leaving by raise.  That is decided on the path condition, not on the spelling of the
# test: the literals of the path that mention a query component are evaluated on a sample grid (three nodes per
# axis) with the component below the first node / above the last node (must contradict the path: the state is
# refused), at the two end nodes and inside (must agree with the path: the table's own edge is answered).  Literals
# that only read the interpolator object (`I.n_masses == 1`) say which of its shapes the path is for: they are
# solved over small counts, a path whose literals contradict each other (n == 1 and n > 1) is no path.
_SAMPLE_AXES = ([100.0, 150.0, 200.0], [1000.0, 1500.0, 2000.0], [7.0, 8.0, 9.0])
_AXIS_NAMES = ('flight level', 'mass', 'third coordinate')


class EnvelopeGuard:
    """what the path condition of a look-up establishes about its query point"""

    def __init__(self):
        self.tests = 0          # literals of the path that mention a query component
        self.infeasible = False  # the literals about the interpolator object contradict each other
        self.fuzzy = None       # a literal about the interpolator object that could not be evaluated
        self.unguarded = []     # (axis, 'below' / 'above'): a state outside the grid there follows the path
        self.edge_refused = []  # (axis, 'first' / 'last'): the table's own end node does not follow the path
        self.shape = []         # text of the literals about the interpolator object
        self.why = None         # not None: cannot be decided, and why
        self.loop = None        # a loop over the grid on the path that was not unrolled (it may hold the range test)


def envelope_guard(pc, I, grid, comps, derived=None) -> EnvelopeGuard:
    """what path condition pc establishes about the query point `comps` of a look-up over `grid` of interpolator
    object I.  derived(attr, axes, k): value on the sample grid of another attribute the constructor of I computes
    from the grid axes (`self.fl_lo = fls[0]`), or raises."""
    g = EnvelopeGuard()
    k = len(comps)
    ctxt = [canon(c) for c in comps]
    if not 1 <= k <= len(_SAMPLE_AXES) or len(set(ctxt)) != k or grid is None:
        g.why = 'query point the explicit range tests cannot be matched to'
        return g
    gtxt = canon(grid)
    itxt = canon(I) if I is not None else None
    M, J = [], []
    for cond, pol in pc:
        t = canon(cond)
        if any(c in t for c in ctxt):
            M.append((cond, pol))
        elif itxt is not None and itxt + '.' in t:
            J.append((cond, pol))
    g.tests = len(M)
    g.loop = next((canon(c.args[0])[:60] for c, _ in pc if is_sym(c, '_in_loop') and c.args and gtxt in canon(c.args[0])), None)
    g.shape = [('' if pol else 'not ') + canon(c).replace(itxt, '<interpolator>') for c, pol in J]
    axes = tuple(list(a) for a in _SAMPLE_AXES[:k])
    memo = {}

    def text(n):
        t = memo.get(id(n))
        if t is None:
            t = memo[id(n)] = canon(n)
        return t
    # attributes of the interpolator object the literals read, other than the grid: a count (compared with integer
    # constants only: which shape of table the path is for) is solved over 0..3, anything else is computed by the
    # constructor from the grid axes (derived) or unknown
    occ, as_count = {}, {}
    for c, _ in J + M:
        for n in ast.walk(c):
            if isinstance(n, ast.Attribute) and itxt is not None and text(n.value) == itxt and text(n) != gtxt:
                occ[text(n)] = occ.get(text(n), 0) + 1
            if isinstance(n, ast.Compare):
                ops = [n.left] + list(n.comparators)
                for x in ops:
                    if isinstance(x, ast.Attribute) and all(
                            y is x or (isinstance(y, ast.Constant) and isinstance(y.value, int)) for y in ops):
                        as_count[text(x)] = as_count.get(text(x), 0) + 1
    counts = [t for t in occ if as_count.get(t) == occ[t]][:3]
    values = {}
    for t in occ:
        if t not in counts and derived is not None:
            try:
                values[t] = derived(t[len(itxt) + 1:], axes, k)
            except Exception:
                pass

    def make_atom(q, assign):
        qmap = dict(zip(ctxt, q))

        def atom(n):
            if not isinstance(n, ast.expr) or isinstance(n, ast.Constant):
                return NotImplemented
            t = text(n)
            if t in qmap:
                return qmap[t]
            if t == gtxt:
                return axes
            if t in assign:
                return assign[t]
            if t in values:
                return values[t]
            if isinstance(n, ast.Call) and not n.keywords:
                f = n.func
                if isinstance(f, ast.Attribute) and f.attr in ('min', 'max') and not n.args and dotted_name(f) not in _DOTTED \
                        and dotted_name(f.value) not in ('np', 'numpy', 'math'):
                    v = ceval(f.value, {}, atom)
                    return (min if f.attr == 'min' else max)(v)
                if dotted_name(f) in ('np.min', 'np.max', 'np.amin', 'np.amax', 'numpy.min', 'numpy.max', 'numpy.amin', 'numpy.amax') \
                        and len(n.args) == 1:
                    v = ceval(n.args[0], {}, atom)
                    return (min if 'min' in f.attr else max)(v)
            return NotImplemented
        return atom
    assigns = [{}]
    for a in counts:
        assigns = [{**d, a: v} for d in assigns for v in (0, 1, 2, 3)]
    mid = [a[1] for a in axes]
    good = []
    for d in assigns:
        ok = True
        for cond, pol in J:
            try:
                if bool(ceval(cond, {}, make_atom(mid, d))) != pol:
                    ok = False
                    break
            except Exception:
                g.fuzzy = canon(cond)
        if ok:
            good.append(d)
    if not good:
        g.infeasible = True
        return g
    if not M:
        return g

    def follows(q, d):
        for cond, pol in M:
            if bool(ceval(cond, {}, make_atom(q, d))) != pol:
                return False
        return True
    taken = 0
    err = None
    for d in good:
        try:
            inside = follows(mid, d)
            for j, a in enumerate(axes):
                for out, side in ((a[0] - 1.0, 'below'), (a[-1] + 1.0, 'above')):
                    if follows(mid[:j] + [out] + mid[j + 1:], d):
                        taken += 1          # a path states outside the table take (a test that warns and goes on)
                        if (j, side) not in g.unguarded:
                            g.unguarded.append((j, side))
                for edge, side in ((a[0], 'first'), (a[-1], 'last')):
                    if inside and not follows(mid[:j] + [edge] + mid[j + 1:], d) and (j, side) not in g.edge_refused:
                        g.edge_refused.append((j, side))
            taken += inside
        except Exception as ex:
            err = f'a range test on the path cannot be evaluated ({type(ex).__name__}: {str(ex)[:60]})'
    if err is not None and not g.unguarded:
        g.why = err
    elif not taken and err is None:
        g.why = 'the path is not the one a state inside the table takes'
    return g


def _peel(e):
    """(core, chain): the expression inside float(x) / x.item() / np.asarray(x) / x.squeeze() ... and the constant
    integer indices applied to it on the way out, innermost first"""
    chain = []
    while True:
        if isinstance(e, ast.Call) and isinstance(e.func, ast.Name) and e.func.id in ('float',) and len(e.args) == 1 and not e.keywords:
            e = e.args[0]
        elif isinstance(e, ast.Call) and isinstance(e.func, ast.Attribute) and e.func.attr in ('item', 'squeeze', 'ravel', 'flatten', 'tolist') \
                and not e.args:
            e = e.func.value
        elif isinstance(e, ast.Call) and dotted_name(e.func) in ('np.float64', 'numpy.float64', 'np.asarray', 'np.squeeze', 'np.ravel') \
                and len(e.args) == 1:
            e = e.args[0]
        elif isinstance(e, ast.Subscript) and isinstance(const_value(e.slice), int) and not isinstance(const_value(e.slice), bool):
            chain.insert(0, const_value(e.slice))
            e = e.value
        elif isinstance(e, ast.Subscript) and isinstance(e.slice, ast.Tuple) and all(
                isinstance(const_value(x), int) and not isinstance(const_value(x), bool) or isinstance(x, ast.Constant) and x.value is Ellipsis
                for x in e.slice.elts):
            chain[0:0] = [const_value(x) for x in e.slice.elts if not (isinstance(x, ast.Constant) and x.value is Ellipsis)]
            e = e.value
        else:
            return e, chain


def _stacked(v):
    """the tables of np.stack([a, b, c], axis=-1): one interpolation answers for all of them, component k of the
    answer's last axis belongs to table k"""
    if isinstance(v, ast.Call) and dotted_name(v.func) in ('np.stack', 'numpy.stack') and v.args \
            and isinstance(v.args[0], (ast.List, ast.Tuple)) and not any(isinstance(x, ast.Starred) for x in v.args[0].elts):
        ax = v.args[1] if len(v.args) > 1 else kwarg(v, 'axis')
        if ax is not None and const_value(ax) == -1 and len(v.args) <= 2 and all(k.arg == 'axis' for k in v.keywords):
            return list(v.args[0].elts)
    return None


def _ctor_paths(prog, cls):
    """normal paths through the constructor of cls, fields left symbolic (not read back), cached on the program"""
    cache = prog.__dict__.setdefault('_c06_ctor_paths', {})
    key = (cls.module.relpath, cls.name)
    if key not in cache:
        init = cls.find_method('__init__') or cls.find_method('__post_init__')
        res = None
        if init is not None:
            try:
                res = [st for k, v, st in Engine(prog, read_back=False).run(init, self_cls=cls) if k == 'return']
            except Undecided:
                res = None
        cache[key] = res
    return cache[key]


def lower_lookup(prog, e, st, chain=None, siblings=()):
    """(event, why).  The look-up call event e of path st as an interpn event (see the section head): e itself when
    it is interpn; a copy with name / args / kwargs of the equivalent interpn call, `via` the routine and `site` the
    place the object was built, when e calls a prebuilt interpolator object; an event named after the routine when
    that routine never refuses.  `chain` are the indices applied to the result: over stacked value tables the last one
    selects the table (chain None: the caller does not care which).  `siblings`: the other paths of the same run; an
    attribute the constructor leaves empty and a sibling path fills (built on first use) holds what that path stores.
    (e, why) with a reason when e is no look-up the function can read."""
    if e.kind != 'call' or not isinstance(e.value, ast.Call):
        return e, None
    if e.name == INTERPN:
        if any(k.startswith('**') for k in e.kwargs) or any(isinstance(a, ast.Starred) for a in e.args):
            return e, None
        names = ('points', 'values', 'xi', 'method', 'bounds_error', 'fill_value')
        kw = {n: e.arg(i, n) for i, n in enumerate(names) if e.arg(i, n) is not None}
        return _select_table(e.like(args=[kw.pop('points', None), kw.pop('values', None), kw.pop('xi', None)], kwargs=kw), chain)
    func = e.value.func
    if len(e.args) != 1 or e.kwargs:
        return e, None
    built = []              # (routine, constructor call in terms of the interpolator object, (function, line))
    if isinstance(func, ast.Call):
        cev = next((x for x in st.events if x.kind == 'call' and canon(x.value) == canon(func)), None)
        if cev is None or not (cev.name in OBJECT_ROUTINES or cev.name in NEVER_REFUSE):
            return e, None
        built.append((cev.name, func, (cev.fi, cev.line)))
    else:
        I, base, key = e.self_val, func, None
        if isinstance(base, ast.Subscript):
            base, key = base.value, base.slice
        if I is None or e.fi.cls is None or not (isinstance(base, ast.Attribute) and canon(base.value) == canon(I)):
            return e, None
        paths = _ctor_paths(prog, e.fi.cls)
        if not paths:
            return e, None

        class Sub(ast.NodeTransformer):
            def visit_Name(self, n):
                return clone(I) if n.id == 'self' else n
        for ist in paths:
            val = ist.heap.get(f'self.{base.attr}')
            if val is not None and key is not None:
                val = simp(ast.Subscript(value=val, slice=key, ctx=ast.Load()))
            if val is None or (isinstance(val, ast.Constant) and val.value is None):
                # left empty by the constructor: filled on first use by a path of this run?
                late = [(x, s2) for s2 in siblings for x in s2.events
                        if x.kind == 'store' and canon(x.target) == canon(func) and isinstance(x.value, ast.Call)]
                for x, s2 in late:
                    cev = next((y for y in s2.events if y.kind == 'call' and canon(y.value) == canon(x.value)), None)
                    if cev is None or not (cev.name in OBJECT_ROUTINES or cev.name in NEVER_REFUSE):
                        return e, None
                    if not any(canon(x.value) == canon(b[1]) for b in built):
                        built.append((cev.name, x.value, (cev.fi, cev.line)))
                if not late:
                    return e, None
                continue
            if not isinstance(val, ast.Call):
                return e, f'`{canon(func)[-40:]}` is not an interpolator object built by the constructor'
            cev = next((x for x in ist.events if x.kind == 'call' and canon(x.value) == canon(val)), None)
            if cev is None or not (cev.name in OBJECT_ROUTINES or cev.name in NEVER_REFUSE):
                return e, None
            # the object keeps the arrays it was given: they must be complete when it is built
            used = {n.attr for n in ast.walk(val) if isinstance(n, ast.Attribute) and canon(n.value) == 'self'}
            after = ist.events[ist.events.index(cev) + 1:]
            late = next((x for x in after if x.kind == 'store' and any(
                canon(x.target) == f'self.{a}' or canon(x.target).startswith(f'self.{a}[') for a in used)), None)
            if late is not None:
                return e, f'the constructor writes `{canon(late.target)[:40]}` after the interpolator object over it is built'
            sv = Sub().visit(clone(val))
            if not any(canon(sv) == canon(b[1]) for b in built):
                built.append((cev.name, sv, (cev.fi, cev.line)))
    lowered = []
    for routine, call, site in built:
        if routine in NEVER_REFUSE:
            return e.like(name=routine, fi=site[0], node=ast.Pass(lineno=site[1]), site=site, via=routine), None
        if any(k.arg is None for k in call.keywords) or any(isinstance(a, ast.Starred) for a in call.args):
            return e, f'{routine.rsplit(".", 1)[-1]} built with unpacked arguments'
        params = OBJECT_ROUTINES[routine]
        given = dict(zip(params, call.args))
        given.update({k.arg: k.value for k in call.keywords})
        roles = {ROLE_OF_PARAM[p]: v for p, v in given.items() if p in ROLE_OF_PARAM}
        if 'axis' in given and const_value(given['axis']) != -1:
            return e, 'interp1d along an explicit axis is not read'
        grid = roles.get('grid')
        if routine.endswith('.interp1d') and grid is not None:
            # interp1d takes the one coordinate array itself: the grid it stands for is the 1-tuple holding it
            grid = grid.value if isinstance(grid, ast.Subscript) and const_value(grid.slice) == 0 else ast.Tuple(elts=[grid], ctx=ast.Load())
        kw = {k: roles[k] for k in ('method', 'bounds_error', 'fill_value') if k in roles}
        xi = e.args[0]
        if routine.endswith('.interp1d') and _point_elements(xi) is None:
            xi = ast.Tuple(elts=[xi], ctx=ast.Load())           # ... and is asked at the one coordinate itself
        lowered.append(e.like(name=INTERPN, args=[grid, roles.get('values'), xi], kwargs=kw, via=routine, site=site))
    # several constructor paths may build the object differently: one that does not refuse is the finding;
    # otherwise they must agree on what is interpolated
    for v in lowered:
        if bounds_policy(v.via, v.kwargs.get('bounds_error'), v.kwargs.get('fill_value'))[0] is False:
            return _select_table(v, chain)
    if len({(canon(v.args[0]), canon(v.args[1]), canon(v.kwargs.get('method'))) for v in lowered}) != 1:
        return e, 'the constructor builds the interpolator object over different arrays on different paths'
    return _select_table(lowered[0], chain)


def _select_table(v, chain):
    """v with the stacked value tables replaced by the one the index chain selects; all other indices only unpack a
    batch of one"""
    tables = _stacked(v.args[1]) if v.args[1] is not None else None
    if chain is None:
        return v, None
    if tables is None:
        if any(i not in (0, -1) for i in chain):
            return None, None           # element other than the first of a one-point answer: not an interpolation result
        return v, None
    if not chain or any(i not in (0, -1) for i in chain[:-1]) or not -len(tables) <= chain[-1] < len(tables):
        return v, 'cannot tell which of the stacked tables the output reads'
    return v.like(args=[v.args[0], tables[chain[-1]], v.args[2]]), None


# ======================================================================================================
# The evaluate path, end to end
# ======================================================================================================
class EvalPath:
    """one way through BasePerformanceModel.evaluate down to the interpolation calls"""

    def __init__(self, kind, value, st):
        self.kind, self.value, self.st = kind, value, st
        self.outputs = {}        # Performance field -> value expression
        self.interp = {}         # Performance field -> Event of the look-up that produces it, as interpn (lower_lookup), or None
        self.why = {}            # Performance field -> why its look-up could not be read as interpn


def evaluate_paths(ctx):
    """symbolic execution of evaluate() of the table model (cached on the program)"""
    prog = ctx.prog
    cached = prog.__dict__.get('_c06_eval')
    if cached is not None:
        return cached
    m = prog.module(LEG)
    model = next((c for c in m.classes.values() if c.is_subclass_of('BasePerformanceModel') and c.find_method('evaluate_impl')
                  and c.find_method('evaluate_impl').file == m.relpath), None)
    if model is None:
        raise AnalysisError('anchor vanished: no performance model class with evaluate_impl in ' + m.relpath)
    ev = model.find_method('evaluate')
    if ev is None:
        raise AnalysisError('anchor vanished: BasePerformanceModel.evaluate')
    prog.consulted.add(ev.file)
    eng = Engine(prog, objects=True)
    names = ['self', 'state', 'rules']
    args = {p: _name(n) for p, n in zip(ev.params, names)}
    try:
        outs = eng.run(ev, self_cls=model, args=args)
    except Undecided as e:
        ctx.undecided('C06-R2', ev, 'evaluate path', str(e))
    perf = prog.cls('performance/types.py', 'Performance')
    fields = list(perf.annotated_fields())
    paths = []
    for kind, val, st in outs:
        p = EvalPath(kind, val, st)
        if kind == 'return' and isinstance(val, ast.Call) and isinstance(val.func, ast.Name) and val.func.id == perf.name:
            vals = dict(zip(fields, val.args))
            vals.update({k.arg: k.value for k in val.keywords if k.arg})
            p.outputs = vals
            calls = {canon(e.value): e for e in st.events if e.kind == 'call'}
            for f, v in vals.items():
                core, chain = _peel(v)
                e = calls.get(canon(core)) if isinstance(core, ast.Call) else None
                if e is not None:
                    e, p.why[f] = lower_lookup(prog, e, st, chain, siblings=[s2 for _, _, s2 in outs])
                p.interp[f] = e
        paths.append(p)
    res = (eng, model, ev, paths, fields)
    prog.__dict__['_c06_eval'] = res
    return res


def rule_no_extrapolation(ctx):
    """R2 (also C02-R10, C17-R6).  Decided on the values that flow: every output of evaluate() is, on every path,
    the result of scipy interpn with bounds checking on, linear, over the grid and the value table of one and the
    same interpolator object, at a query point whose components are the state's altitude (times a constant) and
    the state's mass / the table's extreme mass -- whichever function each piece sits in."""
    prog = ctx.prog
    eng, model, evf, paths, fields = evaluate_paths(ctx)
    consts = _units_consts(prog)
    rets = [p for p in paths if p.kind == 'return']
    if not rets:
        ctx.undecided('C06-R2', evf, 'evaluate', 'no returning path found')
    n_ok = 0
    seen = set()
    guards = {}

    def _guard_of(p, e, qc):
        """envelope_guard of look-up e on path p (cached by what it depends on)"""
        if e is None or e.name != INTERPN:
            return None
        qc = qc or _point_elements(e.arg(2, 'xi'))
        if not qc:
            return None
        key = (id(p.st.pc), canon(e.self_val), canon(e.arg(0, 'points')), tuple(canon(c) for c in qc))
        if key not in guards:
            grid = e.arg(0, 'points')

            def derived(attr, axes, k, e=e, grid=grid):
                # value of self.<attr> as the constructor computes it from the expressions it makes the grid axes of
                if e.fi.cls is None or not isinstance(grid, ast.Attribute):
                    raise Unknown(attr)
                vals = set()
                for ist in _ctor_paths(prog, e.fi.cls) or []:
                    gv, av = ist.heap.get(f'self.{grid.attr}'), ist.heap.get(f'self.{attr}')
                    if not isinstance(gv, (ast.Tuple, ast.List)) or len(gv.elts) != k or av is None:
                        continue
                    amap = {}
                    for x, a in zip(gv.elts, axes):
                        amap[canon(x)] = list(a)
                        while isinstance(x, ast.Call) and len(x.args) == 1 and dotted_name(x.func) in (
                                'np.array', 'np.asarray', 'numpy.array', 'numpy.asarray', 'list', 'tuple'):
                            x = x.args[0]           # the axis before it is wrapped into an array
                            amap[canon(x)] = list(a)
                    vals.add(ceval(av, {}, lambda n: amap.get(canon(n), NotImplemented) if isinstance(n, ast.expr)
                                   and not isinstance(n, ast.Constant) else NotImplemented))
                if len(vals) != 1:
                    raise Unknown(attr)
                return next(iter(vals))
            guards[key] = envelope_guard(p.st.pc, e.self_val, grid, qc, derived)
        return guards[key]
    # ---- outputs come from bounds-checked interpn over the interpolator's own grid / table
    for p in rets:
        if not p.outputs:
            if isinstance(p.value, ast.Constant) and p.value.value is None:
                continue            # no answer at all (no flight rule matched): nothing is extrapolated
            key = ('ret', canon(p.value)[:80])
            if key not in seen:
                seen.add(key)
                ctx.undecided('C06-R2', evf, canon(p.value)[:80], 'evaluate() returns something that is not a Performance(...) built on the path')
            continue
        for f in fields:
            v = p.outputs.get(f)
            e = p.interp.get(f)
            where = e.fi if e is not None else evf
            if v is None:
                ctx.undecided('C06-R2', evf, f, 'output field not set')
            core = _unwrap_scalar(v)
            if e is not None and not isinstance(core, ast.Call):
                core = _peel(v)[0]          # a component of what some call returned: the call is what is not understood
            if e is None or e.name != INTERPN:
                nm = e.name if e is not None else None
                ext = [x for x in p.st.events if x.kind == 'call' and x.name in CLAMPING and canon(x.value) in canon(v)]
                if ext:
                    e, nm, where = ext[0], ext[0].name, ext[0].fi
                key = (f, nm, where.qualname, canon(core)[:60])
                if key in seen:
                    continue
                seen.add(key)
                short = canon(core)[:70]
                if nm in CLAMPING:
                    n_ok += 1       # a look-up, if an unsound one
                    ctx.ob('C06-R2', where, f'{f} = {nm.replace("numpy.", "np.")}(…) on the evaluate path', False,
                           f'{nm} {CLAMPING[nm]}: a state outside the table is answered with an edge / fill value '
                           'instead of being refused', line=e.line)
                elif isinstance(core, ast.Call) or p.why.get(f):
                    ctx.undecided('C06-R2', where, short, p.why.get(f) or f'{f} is produced by a call the rule does not know to be bounds-checked')
                else:
                    ctx.ob('C06-R2', where, f'{f} = {short}', False, f'{f} is not the result of an interpolation in the table',
                           line=getattr(p.value, 'lineno', 0) or evf.node.lineno)
                continue
            if p.why.get(f):
                ctx.undecided('C06-R2', where, canon(e.value)[:80], p.why[f])
            if any(k.startswith('**') for k in e.kwargs) or any(isinstance(a, ast.Starred) for a in e.args):
                ctx.undecided('C06-R2', where, canon(e.value)[:80], 'interpn called with unpacked arguments')
            grid, vals, xi = e.arg(0, 'points'), e.arg(1, 'values'), e.arg(2, 'xi')
            I = e.self_val
            problems = []
            be, fv, meth = e.kwargs.get('bounds_error'), e.kwargs.get('fill_value'), e.kwargs.get('method')
            routine = (e.via or INTERPN).rsplit('.', 1)[-1]
            built = f'{routine} built in {e.site[0].qualname} (line {int(e.site[1])}) with ' if e.site is not None else ''
            refuses, how = bounds_policy(e.via or INTERPN, be, fv)
            if refuses is None:
                ctx.undecided('C06-R2', where, canon(e.value)[:80], how)
            guarded = False
            if not refuses:
                # the routine does not refuse: do explicit range tests on the path refuse in its place?
                qc = _point_elements(xi) if xi is not None else None
                g = _guard_of(p, e, qc) if qc else None
                if g is not None and g.infeasible:
                    continue            # literals about the interpolator contradict each other: nobody takes this path
                if g is not None and g.loop and g.why is None and (not g.tests or g.unguarded):
                    ctx.undecided('C06-R2', where, canon(e.value)[:80], 'the routine is told not to refuse and a loop over the grid '
                                  f'on the path (`{g.loop}`) may hold the range test made in its place: not followed')
                if g is None or not g.tests:
                    # no test on this path: is one made on the other paths to the same look-up?
                    others = [g2 for g2 in (_guard_of(p2, p2.interp.get(f), None) for p2 in rets if p2 is not p
                                            and p2.interp.get(f) is not None and p2.interp[f].line == e.line)
                              if g2 is not None and g2.tests and not g2.infeasible]
                    skipped = ''
                    if g is not None and others:
                        skipped = ('; the explicit range test made in its place on other paths to this look-up is skipped altogether'
                                   + ((' on the path where ' + ' and '.join(g.shape[:3])) if g.shape else '')
                                   + ' (a guard clause / early return placed before the test): no state is refused there')
                    problems.append(built + how + skipped)
                elif g.why is not None or (g.unguarded and g.fuzzy):
                    ctx.undecided('C06-R2', where, canon(e.value)[:80],
                                  'the routine is told not to refuse and the explicit range tests on the path cannot be decided: '
                                  + (g.why or f'`{g.fuzzy[-60:]}` cannot be evaluated'))
                elif g.unguarded:
                    ax = sorted({j for j, _ in g.unguarded})
                    sides = {j: sorted(sd for jj, sd in g.unguarded if jj == j) for j in ax}
                    shape = (' on the path where ' + ' and '.join(g.shape[:3])) if g.shape else ''
                    problems.append(
                        built + how + '; the explicit range test made in its place does not cover this look-up' + shape + ': '
                        + '; '.join(f'no test refuses a {_AXIS_NAMES[j]} {" / ".join(sides[j])} the {_AXIS_NAMES[j]}s of the grid' for j in ax)
                        + ' (a guard clause or early return skips the test, or the test is made on one side / another axis only)')
                elif g.edge_refused and not any(
                        g2 is not None and g2.why is None and not g2.infeasible and not (set(g.edge_refused) & set(g2.edge_refused))
                        for g2 in (_guard_of(p2, p2.interp.get(f), None) for p2 in rets if p2 is not p)):
                    j, side = g.edge_refused[0]
                    problems.append(f'the explicit range test made in place of the routine\'s bounds checking refuses the {side} '
                                    f'{_AXIS_NAMES[j]} of the grid itself (strict comparison): a tabulated state at the edge of the '
                                    'table is rejected instead of answered with the table value')
                else:
                    guarded = True
            if meth is not None and not (isinstance(meth, ast.Constant) and meth.value == 'linear'):
                problems.append(built + f'method={canon(meth)} is not linear interpolation')
            own = I is not None and isinstance(grid, ast.Attribute) and isinstance(vals, ast.Attribute) \
                and canon(grid.value) == canon(I) and canon(vals.value) == canon(I)
            if not own and not problems:
                if grid is None or vals is None or not isinstance(vals, ast.Attribute):
                    ctx.undecided('C06-R2', where, canon(e.value)[:80], 'grid / value table of the interpolation not recognised')
                problems.append(f'{f} is interpolated over `{canon(grid)[:50]}` / `{canon(vals)[:50]}`: not the grid and table of one interpolator')
            key = (f, where.qualname, own and (grid.attr, vals.attr), tuple(problems), e.line)
            if key in seen:
                continue
            seen.add(key)
            ok = not problems
            n_ok += 1           # a recognised table look-up, sound or not: the floor guards against seeing none
            what = f'{f} = {canon(e.value)[:60]}'
            if own:
                what = f'{f} = interpn(<interpolator>.{grid.attr}, <interpolator>.{vals.attr}, query)' if e.via is None else \
                    f'{f} = {routine}(<interpolator>.{grid.attr}, <interpolator>.{vals.attr})(query)'
            ctx.ob('C06-R2', where, what, ok,
                   ('every component of the query is tested against the two ends of its own grid axis on the way (raise outside), '
                    'linear, over the interpolator\'s own grid and table' if guarded else
                    'bounds checking left on (raise outside the grid), linear, over the interpolator\'s own grid and table') if ok
                   else '; '.join(problems), line=e.line)
    ctx.floor('C06-R2', n_ok, 3, 'outputs produced by a table look-up (interpn or equivalent) on the evaluate path')
    # ---- the three outputs use one grid attribute and three different tables
    grids, tables = set(), {}
    for p in rets:
        for f, e in p.interp.items():
            if e is not None and e.name == INTERPN and isinstance(e.arg(0, 'points'), ast.Attribute) and isinstance(e.arg(1, 'values'), ast.Attribute):
                grids.add(e.arg(0, 'points').attr)
                tables.setdefault(f, set()).add(e.arg(1, 'values').attr)
    if tables:
        ok = len(grids) == 1 and all(len(v) == 1 for v in tables.values()) and \
            len({next(iter(v)) for v in tables.values()}) == len(tables)
        ctx.ob('C06-R2', evf, f'outputs {sorted(tables)} read tables {sorted(next(iter(v)) for v in tables.values())} over grid {sorted(grids)}',
               ok, 'one grid, one table per output' if ok else 'two outputs are interpolated from the same table, or over different grids')
    # ---- the query point: components are the state's own altitude (constant factor) and mass, nothing in between
    seen_q = set()
    for p in rets:
        for f, e in p.interp.items():
            if e is None or e.name != INTERPN:
                continue
            xi = e.arg(2, 'xi')
            key = (e.fi.qualname, canon(xi))
            if key in seen_q:
                continue
            seen_q.add(key)
            comps = _point_elements(xi)
            if comps is None and isinstance(xi, ast.Call):
                nm = dotted_name(xi.func) or ''
                full = {'np': 'numpy'}.get(nm.split('.')[0], nm.split('.')[0]) + '.' + nm.split('.', 1)[-1] if '.' in nm else nm
                if full in CLAMPING or (isinstance(xi.func, ast.Attribute) and '.' + xi.func.attr in CLAMPING):
                    ctx.ob('C06-R2', e.fi, f'query point = {canon(xi)[:70]}', False,
                           f'the query point is passed through {nm or xi.func.attr} before interpolation: a state outside the table is moved '
                           'into it instead of being refused', line=e.line)
                    continue
            if comps is None or len(comps) not in (1, 2):
                ctx.undecided('C06-R2', e.fi, canon(xi)[:80], 'query point of the interpolation is not a literal point')
            fl_ok, why = _altitude_component(comps[0], consts)
            if fl_ok is None:
                ctx.undecided('C06-R2', e.fi, canon(comps[0])[:80], why)
            ctx.ob('C06-R2', e.fi, f'altitude coordinate of the query = {canon(comps[0])[:70]}', fl_ok,
                   'the state\'s altitude times a constant, nothing else' if fl_ok else why, line=e.line)
            if len(comps) == 2:
                m_ok, why = _mass_component(comps[1], e, ctx)
                if m_ok is None:
                    ctx.undecided('C06-R2', e.fi, canon(comps[1])[:80], why)
                ctx.ob('C06-R2', e.fi, f'mass coordinate of the query = {canon(comps[1])[:70]}', m_ok,
                       'the state\'s mass or the table\'s own extreme mass' if m_ok else why, line=e.line)
    # ---- nothing else on the path answers outside its data
    n_ext = 0
    for p in paths:
        for e in p.st.events:
            if e.kind == 'call' and e.name in CLAMPING:
                n_ext += 1
                key = ('ext', e.fi.qualname, e.line, e.name)
                if key in seen:
                    continue
                seen.add(key)
                if any(canon(e.value) in canon(v) for q in rets for v in q.outputs.values()):
                    continue            # reported with the output it produces
                if e.name in OBJECT_ROUTINES:
                    # building the object answers nothing; asked later it refuses or not as it was built
                    given = dict(zip(OBJECT_ROUTINES[e.name], e.args))
                    given.update(e.kwargs)
                    if any(k.startswith('**') for k in e.kwargs) or bounds_policy(e.name, given.get('bounds_error'), given.get('fill_value'))[0]:
                        continue
                ctx.ob('C06-R2', e.fi, f'{e.name.replace("numpy.", "np.")}(…) on the evaluate path', False,
                       f'{e.name} {CLAMPING[e.name]}', line=e.line)
    # positive controls: the recognisers see the forbidden forms in an embedded example
    ctl = ast.parse('interpn(xs, v, x, bounds_error=False, fill_value=None)').body[0].value
    ctx.control('C06-R2', any(k.arg == 'bounds_error' and not (isinstance(k.value, ast.Constant) and k.value.value is True)
                              for k in ctl.keywords), 'embedded interpn(..., bounds_error=False) is recognised')
    ctx.control('C06-R2', 'numpy.interp' in CLAMPING and Engine(prog).ext_name(
        Fr(evf, None, None, ()), ast.parse('np.interp(fl, fls, values)').body[0].value.func) in ('numpy.interp', 'np.interp'),
        'embedded np.interp(...) is recognised')
    rgi, i1d = 'scipy.interpolate.RegularGridInterpolator', 'scipy.interpolate.interp1d'
    ctx.control('C06-R2', bounds_policy(rgi, _const(False), None)[0] is False and bounds_policy(rgi, None, _const(0.0))[0] is True
                and bounds_policy(i1d, None, _const('extrapolate'))[0] is False and bounds_policy(i1d, None, None)[0] is True,
                'embedded RegularGridInterpolator(bounds_error=False) / interp1d(fill_value="extrapolate") are read as not refusing, '
                'their defaults as refusing')


def _altitude_component(e, consts):
    """(ok, why): e is state.altitude times a constant"""
    nf = _nf(e, consts)
    if nf is None:
        return None, 'altitude coordinate is not arithmetic the algebra can read'
    atoms = nf.atoms()
    if atoms == {'state.altitude'}:
        if _coefficient(nf, 'state.altitude') is not None:
            return True, ''
        return False, f'the altitude coordinate `{canon(e)[:60]}` is not proportional to the state\'s altitude'
    extra = sorted(a for a in atoms if a != 'state.altitude')
    clamp = [a for a in extra if a.split('(')[0] in ('min', 'max', 'clip', 'minimum', 'maximum', 'round', 'floor', 'ceil', 'int')]
    if clamp:
        return False, f'the altitude is passed through `{clamp[0][:60]}` before interpolation: a state outside the table is moved into it'
    if 'state.altitude' not in atoms:
        return False, f'the altitude coordinate `{canon(e)[:60]}` does not come from the state\'s altitude'
    return None, f'altitude coordinate depends on {extra}'


def _mass_component(e, ev, ctx):
    """(ok, why): e is state.aircraft_mass, or min()/max() of the table's own mass list (or its end elements)"""
    t = canon(e)
    if t == 'state.aircraft_mass':
        return True, ''
    if isinstance(e, ast.Call) and canon(e.func) in ('min', 'max', 'np.min', 'np.max', 'numpy.min', 'numpy.max') and len(e.args) == 1 \
            and not e.keywords and isinstance(e.args[0], ast.Attribute) and e.args[0].attr == 'mass':
        return True, ''
    if isinstance(e, ast.Subscript) and isinstance(e.value, ast.Attribute) and e.value.attr == 'mass' \
            and isinstance(const_value(e.slice), int):
        return True, ''          # which element it must be is R4's clause
    if isinstance(e, ast.Call) and canon(e.func).split('.')[-1] in ('min', 'max', 'clip', 'minimum', 'maximum') \
            and 'state.aircraft_mass' in t:
        return False, f'the mass is passed through `{t[:60]}` before interpolation: a mass outside the table is moved into it'
    if 'state.aircraft_mass' in t:
        return False, f'the mass coordinate `{t[:60]}` is not the state\'s mass itself'
    return None, 'mass coordinate not recognised'



def _mentions(e, pred) -> bool:
    return any(pred(n) for n in ast.walk(e))


def _taken(pc, atom, pred):
    """True / False / None (some literal could not be evaluated): do the literals of the path condition that
    mention the scenario variable hold when it takes the scenario's value?  Sub-conditions the path has decided
    elsewhere (`name in self._data` ...) take the value the path gives them."""
    known = {canon(c): p for c, p in pc}
    unknown = False
    for cond, pol in pc:
        if not _mentions(cond, pred):
            continue

        def hook(n, cond=cond):
            r = atom(n)
            if r is not NotImplemented:
                return r
            if n is not cond and isinstance(n, (ast.Compare, ast.Call, ast.Name, ast.Attribute, ast.Subscript)):
                t = canon(n)
                if t in known:
                    return known[t]
            return NotImplemented
        try:
            v = bool(ceval(cond, {}, hook))
        except Exception:
            unknown = True
            continue
        if v != pol:
            return False
    return None if unknown else True


def _enum_members(cls) -> list[str]:
    return [k for k, v in cls.class_assignments().items() if k.isupper() and v is not None]


def _table_ctor_sites(ctx, table_cls):
    """constructor events of the table class over every function of its module that builds one"""
    prog = ctx.prog
    out = []
    for fi in list(table_cls.module.functions.values()):
        hit = False
        for c in calls_in(fi.node):
            f = c.func
            if isinstance(f, ast.Name) and ((f.id == 'cls' and fi.cls is table_cls and fi.params[:1] == ['cls'])
                                            or prog.resolve_class_expr(fi.module, f) is table_cls):
                hit = True
        if not hit:
            continue
        eng = Engine(prog)
        try:
            eng.run(fi, self_cls=fi.cls)
        except Undecided:
            continue
        out += [e for k, e in eng.ctors if k is table_cls]
    return out


def _is_sorted_unique(e, col: str | None = None):
    """(table expr, column) when e is the ascending sequence of the distinct values of a table column, however the
    three steps are spelt and nested: ordering (sorted / np.sort / np.unique, not reversed, no key), distinctness
    (.unique() / set / np.unique / drop_duplicates) and harmless packaging (list / tuple / np.array / .tolist() /
    element-wise float()).  None when e is anything else."""
    ordered = distinct = False
    for _ in range(12):
        if isinstance(e, ast.Call):
            d = dotted_name(e.func) or ''
            f = e.func
            if d in ('np.array', 'np.asarray', 'numpy.array', 'numpy.asarray', 'list', 'tuple', 'np.float64') and len(e.args) == 1 \
                    and all(k.arg == 'dtype' for k in e.keywords):
                e = e.args[0]
                continue
            if isinstance(f, ast.Attribute) and f.attr in ('tolist', 'to_numpy', 'to_list', 'copy', 'astype') and (
                    not e.args or f.attr == 'astype'):
                e = f.value
                continue
            if d in ('sorted', 'np.sort', 'numpy.sort') and len(e.args) == 1:
                rev = kwarg(e, 'reverse')
                if (rev is not None and not (isinstance(rev, ast.Constant) and rev.value is False)) or kwarg(e, 'key') is not None:
                    return None
                if distinct and d == 'sorted':
                    pass
                ordered, e = True, e.args[0]
                continue
            if d in ('np.unique', 'numpy.unique') and len(e.args) == 1 and not e.keywords:
                ordered, distinct, e = True, True, e.args[0]
                continue
            if d in ('set', 'frozenset', 'pd.unique', 'dict.fromkeys') and len(e.args) == 1 and not e.keywords:
                if ordered is False:
                    return None         # distinct but in no particular order, and nothing sorts it afterwards
                distinct, e = True, e.args[0]
                continue
            if isinstance(f, ast.Attribute) and f.attr in ('unique', 'drop_duplicates') and not e.args and not e.keywords:
                distinct, e = True, f.value         # keeps the order of first appearance: sorting may come before or after
                continue
            if isinstance(f, ast.Attribute) and f.attr == 'sort_values' and not e.args and _col_of(f.value) is not None:
                asc = kwarg(e, 'ascending')
                if (asc is not None and not (isinstance(asc, ast.Constant) and asc.value is True)) or kwarg(e, 'key') is not None:
                    return None
                ordered, e = True, f.value
                continue
            if d == 'map' and len(e.args) == 2 and canon(e.args[0]) in ('float', 'int'):
                e = e.args[1]
                continue
            return None
        if isinstance(e, (ast.GeneratorExp, ast.ListComp, ast.SetComp)) and len(e.generators) == 1 and not e.generators[0].ifs \
                and isinstance(e.generators[0].target, ast.Name):
            v = e.generators[0].target.id
            elt = e.elt
            while isinstance(elt, ast.Call) and canon(elt.func) in ('float', 'int', 'np.float64') and len(elt.args) == 1:
                elt = elt.args[0]
            if not (isinstance(elt, ast.Name) and elt.id == v):
                return None
            if isinstance(e, ast.SetComp):
                if not ordered:
                    return None
                distinct = True
            e = e.generators[0].iter
            continue
        break
    if not (ordered and distinct):
        return None
    return _values_of_column(e)


def _values_of_column(e):
    while (isinstance(e, ast.Attribute) and e.attr == 'values') or (
            isinstance(e, ast.Call) and isinstance(e.func, ast.Attribute) and e.func.attr in ('to_numpy', 'tolist', 'to_list') and not e.args):
        e = e.value if isinstance(e, ast.Attribute) else e.func.value
    return _col_of(e)


def rule_masses(ctx):
    """R4 / R6, decided on the same end-to-end paths as R2 by evaluating the path conditions for each scenario."""
    prog = ctx.prog
    eng, model, evf, paths, fields = evaluate_paths(ctx)
    m = prog.module(LEG)
    consts = _units_consts(prog)
    rets = [p for p in paths if p.kind == 'return' and p.outputs]
    table_cls = m.cls('PerformanceTable')
    axis = RocdAxis(table_cls)

    def interp_event(p):
        return next((e for e in p.interp.values() if e is not None and e.name == INTERPN), None)
    use = [(p, interp_event(p)) for p in rets]
    use = [(p, e) for p, e in use if e is not None]
    if not use:
        ctx.undecided('C06-R4', evf, 'evaluate', 'no interpolation reached from evaluate()')

    # ---- R6: altitude -> flight level with METERS_TO_FL
    want = consts.get('METERS_TO_FL')
    seen = set()
    for p, e in use:
        comps = _point_elements(e.arg(2, 'xi'))
        if not comps:
            continue
        k = canon(comps[0])
        if k in seen:
            continue
        seen.add(k)
        c = _coefficient(_nf(comps[0], consts), 'state.altitude')
        ok = c is not None and want is not None and c == want
        ctx.ob('C06-R6', e.fi, f'flight level of the query = {k[:70]}', ok,
               'altitude in metres converted with METERS_TO_FL' if ok else
               f'altitude is converted to flight level with the wrong factor ({float(c):.9g} per metre, METERS_TO_FL is {float(want):.9g})'
               if c is not None and want is not None else 'flight level of the query is not the converted altitude', line=e.line)

    # ---- R4: symbolic masses mean the table's extreme masses
    def is_mass(n):
        return isinstance(n, ast.Attribute) and canon(n) == 'state.aircraft_mass'
    needs_sorted = any(isinstance(c, ast.Subscript) and isinstance(c.value, ast.Attribute) and c.value.attr == 'mass'
                       for p, e in use for c in (_point_elements(e.arg(2, 'xi')) or [])[1:2])
    sample = [2.0, 3.0, 1.0]
    sorted_note = ''
    if needs_sorted:
        sites = _table_ctor_sites(ctx, table_cls)
        vals = [s.arg(None, 'mass') for s in sites]
        if sites and all(v is not None and _is_sorted_unique(v) is not None for v in vals):
            sample = [1.0, 2.0, 3.0]
            sorted_note = ' (every constructor of the table passes an ascending mass list)'
        else:
            bad = next((v for v in vals if v is not None and _is_sorted_unique(v) is None), None)
            sorted_note = (f' (the table\'s mass list is built as `{canon(bad)[:60]}`, which is not in ascending order)' if bad is not None
                           else ' (the table\'s mass list is not known to be in ascending order)')
    for scen, expect, what in (('min', min(sample), "'min' → lowest table mass"), ('max', max(sample), "'max' → highest table mass"),
                               (61234.5, 61234.5, 'a numeric mass is used as given')):
        def atom(n, scen=scen):
            if is_mass(n):
                return scen
            if isinstance(n, ast.Attribute) and n.attr == 'mass' and canon(n) != 'state.aircraft_mass':
                return list(sample)
            return NotImplemented
        verdicts = []
        for p, e in use:
            comps = _point_elements(e.arg(2, 'xi')) or []
            if len(comps) != 2:
                continue
            tk = _taken(p.st.pc, atom, is_mass)
            if tk is False:
                continue
            try:
                got = ceval(comps[1], {}, atom)
            except Exception:
                got = Unknown
            verdicts.append((tk, got, comps[1], e))
        if not verdicts:
            ctx.undecided('C06-R4', evf, f'mass scenario {scen!r}', 'no two-dimensional interpolation is reached for this mass')
        bad = [(tk, got, c, e) for tk, got, c, e in verdicts if got is Unknown or got != expect]
        sure_bad = [b for b in bad if b[0] is True and b[1] is not Unknown]
        if bad and not sure_bad:
            ctx.undecided('C06-R4', bad[0][3].fi, canon(bad[0][2])[:80], f'cannot evaluate the mass coordinate for aircraft_mass={scen!r}')
        e0 = (sure_bad or verdicts)[0][3]
        c0 = (sure_bad or verdicts)[0][2]
        ctx.ob('C06-R4', e0.fi, f'aircraft_mass={scen!r}: mass coordinate {canon(c0)[:60]}', not sure_bad,
               what if not sure_bad else
               (f'with aircraft_mass={scen!r} the model interpolates at `{canon(c0)[:60]}`, which is not the table\'s '
                f'{"lowest" if scen == "min" else "highest" if scen == "max" else "given"} mass' + sorted_note), line=e0.line)

    # ---- R6: flight phase -> sub-table
    rules_cls = prog.cls('performance/types.py', 'SimpleFlightRules')
    members = _enum_members(rules_cls)
    unknown_members = [x for x in members if x not in PHASE_BAND]
    if unknown_members:
        ctx.undecided('C06-R6', evf, f'flight rules {unknown_members}', 'flight phase without a documented sub-table')

    def band_of_interpolator(I):
        """band of the sub-table an interpolator object was built from / is cached under, and how it is known"""
        if isinstance(I, ast.Subscript):
            d = _dotted_const(I.slice)
            if d:
                return FILTER_BAND.get(d.rsplit('.', 1)[-1]), f'cached under {d}'
        if isinstance(I, ast.Call) and isinstance(I.func, ast.Attribute) and I.func.attr in ('get', 'setdefault', 'pop') and I.args:
            d = _dotted_const(I.args[0])
            if d:
                return FILTER_BAND.get(d.rsplit('.', 1)[-1]), f'cached under {d}'
        if isinstance(I, ast.Call) and I.args:
            tb, mask = _split_filter(I.args[0])
            if mask is not None:
                return axis.mask_band(mask, tb)[0], f'built from rows where {canon(mask)[:50]}'
            if whole_table(tb):
                return 'A', f'built from all rows of `{canon(tb)[:50]}`, whatever their ROCD'
        return None, canon(I)[:60]

    def whole_table(x):
        """x is the row frame of a performance table as it stands (a DataFrame field of the table class), unfiltered"""
        if not isinstance(x, ast.Attribute):
            return False
        ann = table_cls.all_fields().get(x.attr)
        return ann is not None and 'DataFrame' in ast.unparse(ann)
    for X in members:
        def atom(n, X=X):
            if isinstance(n, ast.Name) and n.id == 'rules':
                return Sym(f'{rules_cls.name}.{X}')
            return NotImplemented
        got = []
        for p, e in use:
            tk = _taken(p.st.pc, atom, lambda n: isinstance(n, ast.Name) and n.id == 'rules')
            if tk is False:
                continue
            b, how = band_of_interpolator(e.self_val)
            got.append((b, how, e))
        if not got:
            ctx.ob('C06-R6', evf, f'{X} evaluates a sub-table', False, f'no interpolation is reached for flight rule {X}')
            continue
        und = [g for g in got if g[0] is None]
        bad = [g for g in got if g[0] is not None and g[0] != PHASE_BAND[X]]
        if und and not bad:
            ctx.undecided('C06-R6', und[0][2].fi, und[0][1], f'sub-table evaluated for {X} not recognised')
        names = {'P': 'positive', 'Z': 'zero', 'N': 'negative', 'A': 'all'}
        ctx.ob('C06-R6', evf, f'{X} → {sorted({names.get(g[0], "?") for g in got})} ROCD rows', not bad,
               f'{X} uses the {names[PHASE_BAND[X]]}-ROCD sub-table' if not bad else
               (f'flight phase {X} evaluates the whole table instead of its {names[PHASE_BAND[X]]}-ROCD rows ({bad[0][1]})'
                if bad[0][0] == 'A' else f'flight phase {X} evaluates the {names.get(bad[0][0])}-ROCD sub-table ({bad[0][1]})'),
               line=(bad[0][2].line if bad else evf.node.lineno))
    # the interpolator cached under a key is the one built from that key's rows, of the same table
    nst = 0
    seen = set()
    caches = {}
    for p in paths:
        for e in p.st.events:
            if e.kind == 'store' and isinstance(e.target, ast.Subscript) and isinstance(e.value, ast.Call) and e.value.args \
                    and isinstance(e.value.func, ast.Name) and isinstance(e.target.value, ast.Attribute):
                d = _dotted_const(e.target.slice)
                tb, mask = _split_filter(e.value.args[0])
                if d is None or (mask is None and not whole_table(tb)):
                    continue
                k = (d, canon(mask))
                if k in seen:
                    continue
                seen.add(k)
                nst += 1
                caches.setdefault(canon(e.target.value), (e.target.value, e))
                if mask is None:
                    ctx.ob('C06-R6', e.fi, f'interpolator cached under {d} is built from `{canon(tb)[:60]}`', False,
                           f'the interpolator cached under {d} is built from all rows of the table, not from the rows of that phase',
                           line=e.line)
                    continue
                b = axis.mask_band(mask, tb)[0]
                # the cache belongs to the table whose rows it holds: it is reached from that table object
                # (`T.cache[k]`, or `T.store.items[k]` through a helper object T keeps)
                same_table = isinstance(tb, ast.Attribute) and canon(e.target.value).startswith(canon(tb.value) + '.')
                ok = b is not None and b == FILTER_BAND.get(d.rsplit('.', 1)[-1]) and same_table
                ctx.ob('C06-R6', e.fi, f'interpolator cached under {d} is built from rows where {canon(mask)[:60]}', ok,
                       'key and sub-table agree' if ok else
                       'phase interpolator cache key and the sub-table it was built from disagree', line=e.line)
    ctx.floor('C06-R6/cache', nst, 3, 'interpolators cached per phase filter')
    # ... and the cache is the table's own: an object created for that table, not one every table of the process shares
    for ctext, (c_expr, e) in sorted(caches.items()):
        kind, what = _container_origin(prog, eng, c_expr)
        if kind == 'unknown':
            ctx.undecided('C06-R6', e.fi, ctext[:80], f'cannot tell where the container of the phase interpolators comes from ({what})')
        ctx.ob('C06-R6', e.fi, f'phase interpolators are kept in `{ctext[:70]}`, a container of the table\'s own', kind == 'fresh',
               what if kind == 'fresh' else
               f'the phase interpolators of a table are kept in `{ctext[:70]}`, which is {what}: every table of the process '
               f'stores into and reads from the same container, so a model evaluated after another one for the same phase answers '
               f'with the other model\'s table (the result no longer depends on altitude, mass and phase only)', line=e.line)

    # ---- R6: the three sub-table filters partition the ROCD axis with one tolerance
    sb = next((f for f in table_cls.methods.values() if any(
        (isinstance(a.annotation, (ast.Name, ast.Constant)) and 'ROCDFilter' in ast.unparse(a.annotation)) for a in f.node.args.args)
        and any(k is table_cls for k in [prog.resolve_class_expr(f.module, c.func) for c in calls_in(f.node)
                                         if isinstance(c.func, ast.Name)])), None)
    if sb is None:
        sb = table_cls.find_method('subset')
    if sb is None:
        ctx.undecided('C06-R6', evf, 'subset', 'sub-table extraction method not found')
    eng2 = Engine(prog)
    pname = sb.params[1] if len(sb.params) > 1 else 'rocd'
    try:
        outs = eng2.run(sb, self_cls=table_cls, args={pname: _name('which')})
    except Undecided as ex:
        ctx.undecided('C06-R6', sb, 'subset', str(ex))
    fcls = m.cls('ROCDFilter')
    bands = {}
    for X in _enum_members(fcls):
        def atom(n, X=X):
            if isinstance(n, ast.Name) and n.id == 'which':
                return Sym(f'{fcls.name}.{X}')
            return NotImplemented
        for kind, val, st in outs:
            if kind != 'return' or _taken(st.pc, atom, lambda n: isinstance(n, ast.Name) and n.id == 'which') is False:
                continue
            dfv = next((k.value for k in val.keywords if k.arg == 'df'), None) if isinstance(val, ast.Call) else None
            if dfv is None:
                ctx.undecided('C06-R6', sb, canon(val)[:80], 'sub-table is not returned as a table built from filtered rows')
            tb, mask = _split_filter(dfv)
            if mask is None:
                bands.setdefault(X, []).append((None, frozenset(range(7)), dfv))
            else:
                b, idx = axis.mask_band(mask, tb)
                if idx is None:
                    ctx.undecided('C06-R6', sb, canon(mask)[:80], 'row filter cannot be evaluated on the ROCD axis')
                bands.setdefault(X, []).append((b, idx, mask))
    ok = set(bands) == set(FILTER_BAND) and all(len(v) == 1 and v[0][0] == FILTER_BAND[X] for X, v in bands.items())
    if ok:
        allidx = [v[0][1] for v in bands.values()]
        ok = frozenset().union(*allidx) == frozenset(range(7)) and sum(len(i) for i in allidx) == 7
    ctx.ob('C06-R6', sb, 'sub-table filters partition the ROCD axis with one tolerance', ok,
           '< −tol | [−tol, tol] | > tol' if ok else
           'the three ROCD filters overlap, leave a gap, or select the wrong sign: '
           + '; '.join(f'{X}: {canon(v[0][2])[:50]}' for X, v in sorted(bands.items())))


_FRESH_NODES = (ast.Dict, ast.List, ast.Set, ast.DictComp, ast.ListComp, ast.SetComp)


def _container_origin(prog, eng, c_expr, depth=0):
    """('fresh' | 'shared' | 'unknown', description): where the container object `<obj>.attr` (a value of the evaluate
    run) comes from, decided on every store of the attribute in the class of obj: fresh when each is a new display /
    comprehension / constructor call / dataclass default_factory evaluated per instance; shared when one is a
    class-level object, a module-level object or the default value of a parameter that the construction site leaves
    to its default."""
    own = eng.attr_owner.get(canon(c_expr)) if isinstance(c_expr, ast.Attribute) else None
    if own is None:
        return 'unknown', 'not an attribute of an object of a repository class'
    k, attr = own
    obj = c_expr.value

    def is_fresh_call(v, m):
        if not isinstance(v, ast.Call):
            return False
        r = prog.resolve_name(m, v.func.id) if isinstance(v.func, ast.Name) else None
        return not isinstance(r, FunctionInfo)      # a builtin, an external factory or a class: a new object per call

    def classify(v, meth):
        m = meth.module if meth is not None else k.module
        if isinstance(v, _FRESH_NODES) or is_fresh_call(v, m):
            return 'fresh', 'a new object'
        if isinstance(v, ast.BoolOp) and isinstance(v.op, ast.Or) or isinstance(v, ast.IfExp):
            alts = v.values if isinstance(v, ast.BoolOp) else [v.body, v.orelse]
            rs = [classify(x, meth) for x in alts]
            rs = [r for r in rs if r[0] != 'none']
            for want in ('shared', 'unknown', 'fresh'):
                hit = next((r for r in rs if r[0] == want), None)
                if hit:
                    return hit
            return 'unknown', canon(v)[:60]
        if isinstance(v, ast.Constant) and v.value is None:
            return 'none', 'None'
        if isinstance(v, ast.Name) and meth is not None and v.id in meth.params and v.id not in _assigned_in(meth.node.body):
            a = meth.node.args
            info = eng._objinfo.get(canon(obj))
            if info is None or meth.name != '__init__':
                return 'unknown', f'parameter {v.id} of {meth.qualname}'
            given = eng._bind_params(meth, info[1], info[2], obj).get(v.id)
            dflts = list(a.defaults) + [d for d in a.kw_defaults if d is not None]
            if any(given is d for d in dflts):
                if isinstance(given, _FRESH_NODES) or isinstance(given, ast.Call):
                    return 'shared', (f'the default value `{canon(given)}` of parameter `{v.id}` of {meth.qualname} (line {meth.node.lineno}), '
                                      f'an object created once, when the function is defined')
                return classify(given, None)
            if given is None or is_sym(given, '_param'):
                return 'unknown', f'parameter {v.id} of {meth.qualname}'
            return classify(given, None)
        if isinstance(v, ast.Name):
            r = prog.resolve_name(m, v.id)
            if isinstance(r, tuple) and r[0] == 'const':
                val = r[1].constants[r[2]]
                if isinstance(val, _FRESH_NODES) or isinstance(val, ast.Call):
                    return 'shared', f'the module-level object `{v.id}` of {r[1].relpath.split("/")[-1]}'
        return 'unknown', canon(v)[:60]

    found = []
    for c in k.mro():
        for meth in c.methods.values():
            me = meth.params[0] if meth.params else None
            for t, stmt, how in stores_to(meth.node):
                if isinstance(t, ast.Attribute) and t.attr == attr and isinstance(t.value, ast.Name) and t.value.id == me:
                    v = getattr(stmt, 'value', None)
                    if how in ('assign', 'ann') and v is not None and not (isinstance(stmt, ast.Assign) and isinstance(stmt.targets[0], (ast.Tuple, ast.List))):
                        found.append(classify(v, meth))
                    else:
                        found.append(('unknown', f'`{canon(stmt)[:50]}`'))
    if not found:
        d = _field_decl(k, attr)
        cls_val = d.value if d is not None else next((v for c in k.mro() for n, v in c.class_assignments().items() if n == attr), None)
        if cls_val is None:
            return 'unknown', f'no store of {k.name}.{attr} found'
        if isinstance(cls_val, ast.Call) and canon(cls_val.func).split('.')[-1] == 'field':
            fac = next((kw.value for kw in cls_val.keywords if kw.arg == 'default_factory'), None)
            if fac is not None and _is_dataclass(k):
                return 'fresh', f'created per instance by the default_factory of {k.name}.{attr}'
            return 'unknown', canon(cls_val)[:60]
        if isinstance(cls_val, _FRESH_NODES) or isinstance(cls_val, ast.Call):
            return 'shared', f'the class-level object `{k.name}.{attr} = {canon(cls_val)[:30]}` (no instance ever gets its own)'
        return 'unknown', canon(cls_val)[:60]
    for want in ('shared', 'unknown'):
        hit = next((r for r in found if r[0] == want), None)
        if hit:
            return hit
    if all(r[0] == 'none' for r in found):
        return 'unknown', f'{k.name}.{attr} is only ever set to None'
    if isinstance(obj, ast.Attribute) and depth < 3 and canon(obj) in eng._objinfo:
        # the container is fresh per helper object: the helper object itself must be the table's own
        r = _container_origin(prog, eng, obj, depth + 1)
        if r[0] != 'fresh':
            return r
    return 'fresh', f'created by {k.name} for each instance'


# ======================================================================================================
# R3 -- load-time validation
# ======================================================================================================
def _count_atoms(e, table_of):
    """rewrite the row / distinct-value counts in e into names the algebra can multiply:
    N__<t> rows of sub-table t; NU__<t>__<cols> distinct combinations of the columns; LEN__<x> length of a list attribute.
    table_of(expr) -> sub-table id or None.  Returns the rewritten expression (counts it cannot name stay as written)."""
    def cols_of(x):
        if isinstance(x, ast.Constant) and isinstance(x.value, str):
            return [x.value]
        if isinstance(x, (ast.List, ast.Tuple)) and all(isinstance(y, ast.Constant) and isinstance(y.value, str) for y in x.elts):
            return [y.value for y in x.elts]
        return None

    def distinct(x):
        """(table id, cols) when x is a collection with one entry per distinct combination of columns"""
        if isinstance(x, ast.Call) and isinstance(x.func, ast.Attribute):
            a, o = x.func.attr, x.func.value
            if a in ('unique', 'drop_duplicates') and not x.args and not x.keywords:
                c = _col_of(o)
                if c and table_of(c[0]):
                    return table_of(c[0]), [c[1]]
                # T[['a', 'b']].drop_duplicates()
                if isinstance(o, ast.Subscript) and cols_of(o.slice) and table_of(o.value):
                    return table_of(o.value), cols_of(o.slice)
            if a == 'drop_duplicates' and table_of(o):
                sub = x.args[0] if x.args else kwarg(x, 'subset')
                if sub is not None and cols_of(sub) and len(x.args) + len(x.keywords) == 1:
                    return table_of(o), cols_of(sub)
            if a == 'groupby' and table_of(o) and x.args and cols_of(x.args[0]) and not x.keywords:
                return table_of(o), cols_of(x.args[0])
        if isinstance(x, ast.Call) and canon(x.func) in ('set', 'np.unique', 'numpy.unique', 'pd.unique') and len(x.args) == 1 and not x.keywords:
            c = _values_of_column(x.args[0])
            if c and table_of(c[0]):
                return table_of(c[0]), [c[1]]
        return None

    class T(ast.NodeTransformer):
        def visit(self, n):
            if isinstance(n, ast.Call) and canon(n.func) == 'len' and len(n.args) == 1 and not n.keywords:
                a = n.args[0]
                d = distinct(a)
                if d:
                    return _name(f'NU__{d[0]}__' + '_'.join(sorted(d[1])))
                if table_of(a):
                    return _name(f'N__{table_of(a)}')
                if isinstance(a, ast.Attribute) and a.attr == 'index' and table_of(a.value):
                    return _name(f'N__{table_of(a.value)}')
                if isinstance(a, ast.Attribute) and isinstance(a.value, ast.Name) and a.value.id == 'self':
                    return _name(f'LEN__{a.attr}')
            if isinstance(n, ast.Call) and isinstance(n.func, ast.Attribute) and n.func.attr == 'nunique' and not n.args and not n.keywords:
                c = _col_of(n.func.value)
                if c and table_of(c[0]):
                    return _name(f'NU__{table_of(c[0])}__{c[1]}')
            if isinstance(n, ast.Attribute) and n.attr == 'ngroups':
                d = distinct(n.value)
                if d:
                    return _name(f'NU__{d[0]}__' + '_'.join(sorted(d[1])))
            if isinstance(n, ast.Subscript) and isinstance(n.value, ast.Attribute) and n.value.attr == 'shape' \
                    and const_value(n.slice) == 0 and table_of(n.value.value):
                return _name(f'N__{table_of(n.value.value)}')
            return self.generic_visit(n)
    return T().visit(clone(e))


def _grid_fact(cond, pol, table_of):
    """what a path-condition literal says about the counts: ('eq' | 'ne' | 'weak', polynomial text, Rat) or None"""
    if not (isinstance(cond, ast.Compare) and len(cond.ops) == 1):
        return None
    op = cond.ops[0]
    l, r = _count_atoms(cond.left, table_of), _count_atoms(cond.comparators[0], table_of)
    names = {n.id for x in (l, r) for n in ast.walk(x) if isinstance(n, ast.Name)}
    if not any(n.startswith(('N__', 'NU__', 'LEN__')) for n in names):
        return None
    try:
        nf = normal_form(ast.BinOp(left=l, op=ast.Sub(), right=r), {}, {})
    except AlgebraError:
        return ('weak', canon(cond), None)
    if isinstance(op, (ast.Eq, ast.NotEq)):
        return ('eq' if isinstance(op, ast.Eq) == pol else 'ne', canon(cond), nf)
    return ('weak', canon(cond), nf)


def _same_up_to_sign(a, b) -> bool:
    return poly_equal(a, b) or (a + b).is_zero()


_WCOLS = ('fl', 'mass', 'tas', 'fuel_flow', 'rocd')


def _witness_rows(broken: str, kind: str, col: str | None):
    """an explicit three-phase table (2 flight levels x 3 masses per phase, every value column a function of the flight
    level) in which the sub-table `broken` lacks one node (kind 'hole') or has column `col` depend on mass (kind 'dep')"""
    rows = []
    for bi, b in enumerate('ZPN'):
        for fl in (0, 1):
            for mass in (1, 2, 3):
                if b == broken and kind == 'hole' and (fl, mass) == (1, 3):
                    continue
                r = {'band': b, 'fl': fl, 'mass': mass, 'tas': 100 * bi + 10 + fl, 'fuel_flow': 100 * bi + 20 + fl,
                     'rocd': (0, 1, -1)[bi] * (500 + fl)}
                if b == broken and kind == 'dep':
                    r[col] = r[col] * 7 + (mass if col != 'rocd' or bi != 2 else -mass)
                rows.append(r)
    return rows


def _witness_counts(rows) -> dict:
    """value of every count atom of _count_atoms on an explicit table"""
    from itertools import combinations
    out = {'LEN__mass': len({r['mass'] for r in rows})}
    for t in ('Z', 'P', 'N', 'ALL'):
        sub = [r for r in rows if t == 'ALL' or r['band'] == t]
        out[f'N__{t}'] = len(sub)
        for n in range(1, len(_WCOLS) + 1):
            for cs in combinations(_WCOLS, n):
                out[f'NU__{t}__' + '_'.join(sorted(cs))] = len({tuple(r[c] for c in cs) for r in sub})
    return out


def _eval_counts(nf, val: dict):
    """the number a polynomial over count atoms takes on a table (None: an atom the table gives no value)"""
    def poly(p):
        tot = Fraction(0)
        for mono, c in p.items():
            for a, ex in mono:
                if a not in val:
                    return None
                c = c * Fraction(val[a]) ** ex
            tot += c
        return tot
    n, d = poly(nf.num), poly(nf.den)
    if n is None or d is None or d == 0:
        return None
    return n / d


def _accepted_witness(k: str, want, st, axis, table_of, known=()):
    """the sentence describing a table that breaks fact k (polynomial `want`) yet satisfies every literal of the normal
    path st -- None when there is no such table among the witnesses or a literal of the path cannot be evaluated"""
    t = next((b for b in 'ZPN' if f'__{b}' in str(want)), None)
    if t is None:
        return None
    atoms = want.atoms()
    col = None
    if any(a.startswith(f'N__{t}') for a in atoms):
        kind = 'hole'
    else:
        kind = 'dep'
        pair = [a for a in atoms if a != f'NU__{t}__fl']
        if len(pair) != 1:
            return None
        rest = pair[0][len(f'NU__{t}__'):]
        col = next((c for c in _WCOLS if c not in ('fl', 'mass') and '_'.join(sorted(['fl', c])) == rest), None)
        if col is None:
            return None
    val = _witness_counts(_witness_rows(t, kind, col))
    if not _eval_counts(want, val):
        return None             # the table does not break the fact (or it cannot be counted)
    odd = None
    for c, pol in st.pc:
        if axis.gen_band(c, 'self.rocd') is not None:
            if pol:
                return None     # a one-phase table: the witness has all three phases
            continue
        f = _grid_fact(c, pol, table_of)
        if f is None or f[2] is None or f[0] not in ('eq', 'ne'):
            return None
        v = _eval_counts(f[2], val)
        if v is None or (v == 0) != (f[0] == 'eq'):
            return None
        if odd is None and any(a.startswith(('N__' + t, 'NU__' + t + '__')) for a in f[2].atoms()) \
                and f[2].atoms() != {'LEN__mass'} and not any(_same_up_to_sign(f[2], w) for w in known):
            odd = f[1]
    names = {'Z': 'zero', 'P': 'positive', 'N': 'negative'}
    what = ('lacks one (FL, mass) node of its 2 x 3 grid (5 rows, all distinct)' if kind == 'hole'
            else f'has {col} differ between the masses of one flight level')
    return (f'a table whose {names[t]}-ROCD sub-table {what} passes every test of the initialisation and is accepted: '
            f'the tests made on that sub-table (`{(odd or "")[:110]}` ...) do not establish this fact')


def rule_validation(ctx):
    """R3.  (a) A load-time hook of the model builds the performance table, unprotected, on every path, and keeps it
    where evaluate() reads it.  (b) Every normal path through the table's own initialisation has established, by a
    test whose other branch leaves by `raise`, each of: the mass count, full FL x mass coverage of the three ROCD
    sub-tables, and the six columns that may depend on flight level only -- wherever the tests are written (nested
    closures, module helpers, loops over literal tables)."""
    prog = ctx.prog
    m = prog.module(LEG)
    eng0, model, evf, paths, _ = evaluate_paths(ctx)
    table_cls = m.cls('PerformanceTable')
    axis = RocdAxis(table_cls)

    # ---- (a) load-time hook
    hooks = [f for c in model.mro() for f in c.methods.values()
             if f.file == m.relpath and (any(d.split('(')[0].split('.')[-1] in ('model_validator', 'field_validator') for d in f.decorators())
                                         or f.name == 'model_post_init')]
    roots = {canon(e.self_val) for p in paths for e in p.st.events
             if e.fi.cls is not None and e.fi.cls.name == table_cls.name and e.self_val is not None and isinstance(e.self_val, ast.Attribute)}
    built = None
    problems = []
    for h in hooks:
        eng = Engine(prog)
        try:
            outs = eng.run(h, self_cls=model)
        except Undecided as ex:
            ctx.undecided('C06-R3', h, h.name, str(ex))
        normal = [(k, v, st) for k, v, st in outs if k == 'return']
        ctor_paths = [(st, [e for e in st.events if e.kind == 'ctor' and e.cls is table_cls]) for _, _, st in normal]
        if not any(evs for _, evs in ctor_paths):
            continue
        built = h
        for st, evs in ctor_paths:
            if not evs:
                problems.append('a path through the validator does not build the performance table: '
                                + ' and '.join(f'{"" if pol else "not "}{canon(c)[:50]}' for c, pol in st.pc[:3]))
            elif all(e.prot > 0 for e in evs):
                problems.append('the table is built inside a try/except: a refusal of the table can be swallowed')
            else:
                kept = [k for k, v in st.heap.items() if isinstance(v, ast.Call) and isinstance(v.func, ast.Name) and v.func.id == table_cls.name]
                if roots and not (set(kept) & roots):
                    problems.append(f'the validated table is kept as {kept or "nothing"} but evaluate() reads {sorted(roots)}')
    if built is None:
        ctx.ob('C06-R3', (m.relpath, model.name), 'model validation builds the performance table', False,
               'the table is no longer validated at load time (no validator of the model constructs it)')
    else:
        ctx.ob('C06-R3', built, 'model validation builds the performance table', not problems,
               'load-time validator constructs the table evaluate() reads, on every path' if not problems else problems[0])
    is_dc = any(ast.unparse(d).split('(')[0].split('.')[-1] == 'dataclass' for d in table_cls.node.decorator_list)
    init = table_cls.find_method('__post_init__') if is_dc else None
    if init is None:
        init = table_cls.find_method('__init__')
    if init is None:
        ctx.ob('C06-R3', (m.relpath, table_cls.name), 'table construction runs the grid checks', False,
               'the table class has no __post_init__ / __init__ that could check the grid')
        return
    ctx.ob('C06-R3', init, 'constructing the table runs its initialisation', True, 'dataclass __post_init__' if is_dc else '__init__',
           nontrivial=False)

    # ---- (b) the checks, on every normal path
    eng = Engine(prog)
    try:
        outs = eng.run(init, self_cls=table_cls)
    except Undecided as ex:
        ctx.undecided('C06-R3', init, init.name, str(ex))
    bands_seen = {}

    def table_of(x):
        tb, mask = _split_filter(x)
        if canon(tb) not in ('self.df',):
            return None
        if mask is None:
            return 'ALL'
        b, idx = axis.mask_band(mask, tb)
        if b is not None:
            bands_seen[b] = idx
        return b
    names = {'Z': 'zero', 'P': 'positive', 'N': 'negative'}
    required = {}
    for t in 'ZPN':
        required[f'coverage of the {names[t]}-ROCD sub-table (#rows = #FL × #mass)'] = f'NU__{t}__fl * NU__{t}__mass - N__{t}'
    for t, cols in (('Z', ('tas',)), ('P', ('tas', 'fuel_flow')), ('N', ('tas', 'fuel_flow', 'rocd'))):
        for c in cols:
            required[f'{c} of the {names[t]}-ROCD sub-table depends on FL only'] = f'NU__{t}__' + '_'.join(sorted(['fl', c])) + f' - NU__{t}__fl'
    req_nf = {k: normal_form(ast.parse(v, mode='eval').body, {}, {}) for k, v in required.items()}
    normal = [(k, v, st) for k, v, st in outs if k == 'return']
    if not normal:
        ctx.undecided('C06-R3', init, init.name, 'no normal path through the table initialisation')
    missing = {k: [] for k in required}
    weakened = {}
    mass_bad = []
    unrecognised = []
    looped = False
    for _, _, st in normal:
        facts = [f for f in (_grid_fact(c, p, table_of) for c, p in st.pc) if f is not None]
        if any(is_sym(c, '_in_loop') for c, _ in st.pc) or any(e.loops for e in st.events):
            looped = True
        eqs = [f for f in facts if f[0] == 'eq' and f[2] is not None]
        for k, want in req_nf.items():
            if not any(_same_up_to_sign(f[2], want) for f in eqs):
                missing[k].append(st)
                wk = [f for f in facts if f[0] == 'weak' and f[2] is not None and _same_up_to_sign(f[2], want)]
                if wk:
                    weakened[k] = wk[0][1]
        unrecognised += [f for f in facts if f[2] is None or not (
            any(_same_up_to_sign(f[2], w) for w in req_nf.values()) or f[2].atoms() == {'LEN__mass'})]
        # mass count: 1 for an all-negative table, 3 otherwise
        neg = any(p and axis.gen_band(c, 'self.rocd') == 'N' for c, p in st.pc)
        want_k = 1 if neg else 3
        ks = [f[2] for f in eqs if f[2].atoms() == {'LEN__mass'}]
        k_ok = any(poly_equal(k, normal_form(ast.parse(f'LEN__mass - {want_k}', mode='eval').body, {}, {}))
                   or (k + normal_form(ast.parse(f'LEN__mass - {want_k}', mode='eval').body, {}, {})).is_zero() for k in ks)
        if not k_ok:
            mass_bad.append((st, want_k, ks))

    def describe(st):
        lits = [f'{"" if p else "not "}{canon(c)[:60]}' for c, p in st.pc if not is_sym(c, '_in_loop')][:2]
        return ' and '.join(lits) if lits else 'unconditionally'
    rets = [n for n in walk_no_nested(init.node) if isinstance(n, ast.Return)]
    any_missing = any(missing.values()) or mass_bad
    # a test the rule does not know is not therefore a wrong test: it is decided on an explicit table.  For each check
    # that is missing, a table that breaks exactly that fact (one (FL, mass) node of a 2 x 3 sub-table removed / one
    # column made to depend on mass) is counted; when every literal of a normal path is a count test that this table
    # passes, the table is accepted by that path -- whatever the tests that are made look like.
    refuted = {}
    if unrecognised and not looped and not mass_bad:
        for k in required:
            for st in missing[k]:
                w = _accepted_witness(k, req_nf[k], st, axis, table_of, list(req_nf.values()))
                if w:
                    refuted[k] = w
                    break
    if any_missing and (looped or unrecognised) and not refuted:
        what = unrecognised[0][1][:80] if unrecognised else 'loop over a table the analysis cannot enumerate'
        ctx.undecided('C06-R3', init, what, 'a refusal condition of the table initialisation is not recognised as one of the grid checks')
    for k in required:
        ok = not missing[k]
        if not ok and refuted and k not in refuted and unrecognised:
            continue        # not decided (a test on the path is not understood); the refuted checks are reported
        ctx.ob('C06-R3', init, f'every accepted table passed: {k}', ok,
               'established on every normal path, refusal by raise' if ok else
               refuted[k] if k in refuted else
               (f'the check is weakened to the inequality `{weakened[k][:90]}`: tables whose counts differ the other way are accepted'
                if k in weakened else
                f'a table is accepted without this check when {describe(missing[k][0])}'
                + (f' (early `return` at line {rets[0].lineno})' if rets else '')
                + ': some tables are accepted without the complete-grid / FL-only checks'),
               line=(rets[0].lineno if rets and not ok else init.node.lineno))
    ok = not mass_bad
    ctx.ob('C06-R3', init, 'every accepted table has the right number of mass values (1 for a descent table, 3 otherwise)', ok,
           'len(mass) checked against 1 / 3 on every normal path, refusal by raise' if ok else
           f'the number of mass values is not checked against {mass_bad[0][1]} when {describe(mass_bad[0][0])}')
    # the sub-tables the checks run on are the three bands of the ROCD axis
    ok = set(bands_seen) == {'Z', 'P', 'N'} and frozenset().union(*bands_seen.values()) == frozenset(range(7)) \
        and sum(len(v) for v in bands_seen.values()) == 7
    ctx.ob('C06-R3', init, 'the checked sub-tables partition the ROCD axis', ok,
           '< −tol | [−tol, tol] | > tol' if ok else 'the sub-tables that are checked overlap or leave a gap', nontrivial=False)


# ======================================================================================================
# R7 -- coordinate <-> value layout of the interpolator
# ======================================================================================================
def _sorted_rows(e):
    """(table expr, column) when e is a table whose rows are in ascending order of a column:
    T.sort_values('c') / by='c' / ['c'] (not descending), T.set_index('c').sort_index()"""
    while isinstance(e, ast.Call) and isinstance(e.func, ast.Attribute) and e.func.attr in ('reset_index', 'copy'):
        e = e.func.value
    if isinstance(e, ast.Call) and isinstance(e.func, ast.Attribute) and e.func.attr == 'sort_values':
        by = e.args[0] if e.args else kwarg(e, 'by')
        asc = kwarg(e, 'ascending')
        desc = False
        if asc is not None and not (isinstance(asc, ast.Constant) and asc.value is True):
            if not (isinstance(asc, ast.Constant) and asc.value is False):
                return None
            desc = True
        if kwarg(e, 'inplace') is not None or kwarg(e, 'key') is not None:
            return None
        if isinstance(by, (ast.List, ast.Tuple)) and by.elts:
            by = by.elts[0]
        if isinstance(by, ast.Constant) and isinstance(by.value, str):
            return e.func.value, ('-' if desc else '') + by.value
    if isinstance(e, ast.Call) and isinstance(e.func, ast.Attribute) and e.func.attr == 'sort_index' and not e.args and not e.keywords:
        o = e.func.value
        if isinstance(o, ast.Call) and isinstance(o.func, ast.Attribute) and o.func.attr == 'set_index' and len(o.args) == 1 \
                and isinstance(o.args[0], ast.Constant):
            return o.func.value, o.args[0].value
    return None


def rule_layout(ctx):
    """R7.  Per path through the interpolator's constructor: every axis of the grid is the ascending list of the
    distinct values of one table column; the query point of __call__ has the same columns in the same order; a value
    table is filled at [index of the row's own FL, index of the row's own mass] from the column its output names
    (two axes), or is that column of the rows sorted by the axis column (one axis)."""
    prog = ctx.prog
    m = prog.module(LEG)
    eng0, model, evf, paths, fields = evaluate_paths(ctx)
    rets = [p for p in paths if p.kind == 'return' and p.outputs]
    # which attributes of which class the interpolation reads
    gattr, vattr, icls = None, {}, None
    for p in rets:
        for f, e in p.interp.items():
            if e is not None and e.name == INTERPN and isinstance(e.arg(0, 'points'), ast.Attribute) and isinstance(e.arg(1, 'values'), ast.Attribute):
                gattr = e.arg(0, 'points').attr
                vattr[f] = e.arg(1, 'values').attr
                icls = e.fi.cls
    if gattr is None or icls is None or set(vattr) != set(OUTPUT_COLUMN):
        ctx.undecided('C06-R7', evf, 'interpolator layout', 'grid / value tables of the interpolation not identified (see C06-R2)')
    init = icls.find_method('__init__')
    if init is None:
        ctx.undecided('C06-R7', (m.relpath, icls.name), '__init__', 'interpolator has no constructor')
    eng = Engine(prog)
    dfp = init.params[1] if len(init.params) > 1 else 'df'
    try:
        outs = eng.run(init, self_cls=icls, args={dfp: _name('df')})
    except Undecided as ex:
        ctx.undecided('C06-R7', init, '__init__', str(ex))
    normal = [st for k, v, st in outs if k == 'return']
    # several states may differ only in the symbolic loop iteration: group by grid value
    by_grid = {}
    for st in normal:
        g = st.heap.get(f'self.{gattr}')
        if g is None:
            ctx.ob('C06-R7', init, f'self.{gattr} set on every path', False, f'a path through the constructor leaves the grid self.{gattr} unset')
            return
        by_grid.setdefault(canon(g), []).append(st)
    dims_seen = {}
    n1 = 0
    for gtxt, sts in by_grid.items():
        g = sts[0].heap[f'self.{gattr}']
        axes = g.elts if isinstance(g, (ast.Tuple, ast.List)) else None
        if axes is None:
            ctx.undecided('C06-R7', init, gtxt[:80], 'grid is not written as a tuple of coordinate arrays')
        roles = []
        for a in axes:
            su = _is_sorted_unique(a)
            if su is None or canon(su[0]) != 'df':
                # a descending / unsorted axis is a definite fault, anything else is not understood
                inner = a
                while isinstance(inner, ast.Call) and dotted_name(inner.func) in ('np.array', 'np.asarray', 'list', 'tuple') and inner.args:
                    inner = inner.args[0]
                desc = isinstance(inner, ast.Call) and canon(inner.func) == 'sorted' and kwarg(inner, 'reverse') is not None
                col = next((c[1] for n in ast.walk(a) for c in [_col_of(n)] if c and canon(c[0]) == 'df'), None)
                if desc or (col is not None and not any(isinstance(n, ast.Call) and canon(n.func).split('.')[-1] in ('sorted', 'sort', 'unique', 'sort_values')
                                                        for n in ast.walk(a))):
                    ctx.ob('C06-R7', init, f'grid axis {canon(a)[:60]}', False,
                           'the coordinate array is not the ascending list of the distinct values of its column')
                    roles.append(col)
                    continue
                ctx.undecided('C06-R7', init, canon(a)[:80], 'grid axis is not recognised as the sorted distinct values of a table column')
            roles.append(su[1])
        d = len(roles)
        dims_seen[d] = (roles, sts)
        ctx.ob('C06-R7', init, f'grid axes {roles}: each the ascending distinct values of its column', True, 'sorted unique values')
        want_roles = ['fl', 'mass'][:d]
        ok = roles == want_roles
        ctx.ob('C06-R7', init, f'grid axes in the order of the query point ({", ".join(want_roles)})', ok,
               'axis order matches the query tuple' if ok else f'grid axes are {roles} but the query point is ({", ".join(want_roles)})')
        if d == 2:
            for f, va in sorted(vattr.items()):
                col = OUTPUT_COLUMN[f]
                # initial allocation and its shape
                allocs = {canon(st.heap.get(f'self.{va}')) for st in sts if st.heap.get(f'self.{va}') is not None}
                fills = {}
                for st in sts:
                    for e in st.events:
                        if e.kind == 'store' and isinstance(e.target, ast.Subscript) and canon(e.target.value) == f'self.{va}' and e.loops:
                            fills[canon(e.target) + '=' + canon(e.value)] = e
                if not fills:
                    ctx.undecided('C06-R7', init, f'self.{va}', 'two-axis value table is not filled cell by cell in a loop over the rows')
                for e in fills.values():
                    idx = e.target.slice.elts if isinstance(e.target.slice, ast.Tuple) else [e.target.slice]
                    prob = None
                    if len(idx) != 2:
                        prob = f'value table indexed with {len(idx)} indices'
                    else:
                        for pos, (ix, role) in enumerate(zip(idx, roles)):
                            okix = isinstance(ix, ast.Call) and isinstance(ix.func, ast.Attribute) and ix.func.attr == 'index' and len(ix.args) == 1
                            if not okix:
                                ctx.undecided('C06-R7', init, canon(ix)[:80], 'cell index is not a look-up of the row\'s value in a coordinate list')
                            lst = _is_sorted_unique(ix.func.value)
                            key = _col_of(ix.args[0])
                            if lst is None or key is None:
                                ctx.undecided('C06-R7', init, canon(ix)[:80], 'cell index look-up not recognised')
                            if lst[1] != role or key[1] != role:
                                prob = (f'index {pos} of the cell is the position of the row\'s `{key[1]}` in the list of `{lst[1]}` values, '
                                        f'but axis {pos} of the grid is `{role}`')
                                break
                        src = _col_of(e.value)
                        if prob is None and (src is None or src[1] != col):
                            prob = f'the table read for {f} is filled from column `{src[1] if src else canon(e.value)[:30]}`, not `{col}`'
                        if prob is None and src is not None and not is_sym(src[0], '_each') and not (
                                isinstance(src[0], ast.Subscript) and is_sym(src[0].value, '_each')):
                            prob = 'cell value does not come from the row being placed'
                    ctx.ob('C06-R7', init, f'2-D {canon(e.target)[:70]} = {canon(e.value)[:40]}', prob is None,
                           'value[i, j] placed by coordinate lookup, i from FL, j from mass, same-named column' if prob is None else
                           'grid fill-in no longer matches the (FL, mass) coordinate order: ' + prob, line=e.line)
                for a in allocs:
                    al = ast.parse(a, mode='eval').body
                    shp = al.args[0] if isinstance(al, ast.Call) and al.args else None
                    dims = shp.elts if isinstance(shp, (ast.Tuple, ast.List)) else None
                    if dims is None or len(dims) != 2:
                        ctx.undecided('C06-R7', init, a[:80], 'allocation of the value table not recognised')
                    droles = []
                    for dd in dims:
                        su = _is_sorted_unique(dd.args[0]) if isinstance(dd, ast.Call) and canon(dd.func) == 'len' and len(dd.args) == 1 else None
                        droles.append(su[1] if su else None)
                    ok = droles == roles
                    ctx.ob('C06-R7', init, f'self.{va} allocated with shape (#{droles[0]}, #{droles[1]})', ok,
                           'value arrays shaped (levels, masses)' if ok else f'shape follows {droles}, grid axes are {roles}', nontrivial=False)
        elif d == 1:
            for f, va in sorted(vattr.items()):
                col = OUTPUT_COLUMN[f]
                vals = {canon(st.heap.get(f'self.{va}')): st.heap.get(f'self.{va}') for st in sts}
                for txt, v in vals.items():
                    n1 += 1
                    if v is None:
                        ctx.ob('C06-R7', init, f'single-mass self.{va}', False, 'value table not set on the single-axis path')
                        continue
                    c = _values_of_column(v)
                    prob = None
                    if c is None:
                        # values re-ordered by an argsort of the axis column
                        if isinstance(v, ast.Subscript) and isinstance(v.slice, ast.Call) and canon(v.slice.func).split('.')[-1] == 'argsort':
                            c2 = _values_of_column(v.value)
                            k = _values_of_column(v.slice.args[0] if v.slice.args else v.slice.func.value)
                            if c2 and k and k[1] == roles[0] and canon(k[0]) == canon(c2[0]) == 'df':
                                prob = None if c2[1] == col else f'value taken from column `{c2[1]}`, not `{col}`'
                                ctx.ob('C06-R7', init, f'single-mass self.{va} = {txt[:60]}', prob is None,
                                       'values re-ordered by the argsort of the axis column' if prob is None else prob)
                                continue
                        ctx.undecided('C06-R7', init, txt[:80], 'single-axis value table not recognised')
                    tb, cname = c
                    sr = _sorted_rows(tb)
                    if cname != col:
                        prob = f'value taken from a different column (`{cname}`, expected `{col}`)'
                    elif sr is None and canon(tb) == 'df':
                        prob = ('value array and coordinate array are ordered differently: the coordinate is sorted, the values '
                                'are in input row order, so a table whose rows are not in ascending flight-level order returns the wrong row')
                    elif sr is None:
                        ctx.undecided('C06-R7', init, txt[:80], 'row order of the single-axis value table not recognised')
                    elif sr[1] == '-' + roles[0] and canon(sr[0]) == 'df':
                        prob = (f'rows are sorted by `{roles[0]}` in descending order but the axis is ascending: the value of the '
                                'highest level is returned for the lowest')
                    elif sr[1] != roles[0] or canon(sr[0]) != 'df':
                        prob = f'rows are sorted by `{sr[1]}` but the axis is `{roles[0]}`'
                    ctx.ob('C06-R7', init, f'single-mass self.{va} = {txt[:60]}', prob is None,
                           'rows sorted by flight level before the values are taken' if prob is None else prob)
    ctx.floor('C06-R7', n1, 3, 'single-mass value arrays')
    if 2 not in dims_seen:
        ctx.undecided('C06-R7', init, 'two-axis grid', 'no path through the constructor builds the (FL, mass) grid')
    # the query point has as many components as the grid has axes, under the same condition
    ic = icls.find_method('__call__')
    eng3 = Engine(prog)
    try:
        couts = eng3.run(ic, self_cls=icls)
    except Undecided as ex:
        ctx.undecided('C06-R7', ic, '__call__', str(ex))
    for k, v, st in couts:
        ev = next((low for e in st.events if e.kind == 'call'
                   for low in [lower_lookup(prog, e, st, siblings=[s2 for _, _, s2 in couts])[0]]
                   if low is not None and low.name == INTERPN), None)
        if ev is None:
            continue
        comps = _point_elements(ev.arg(2, 'xi'))
        if comps is None:
            continue
        # constructor paths compatible with this call path: evaluate both path conditions over the number of masses
        compat = []
        for d, (roles, sts) in dims_seen.items():
            for ist in sts:
                verdict = _compatible(st, ist)
                if verdict is not False:
                    compat.append((d, verdict))
        sure = [d for d, vd in compat if vd is True]
        maybe = [d for d, vd in compat if vd is None]
        if any(d != len(comps) for d in sure):
            ctx.ob('C06-R7', ic, f'query point {canon(ev.arg(2, "xi"))[:50]} against the grid', False,
                   f'a {len(comps)}-component query point is interpolated over a {next(d for d in sure if d != len(comps))}-axis grid',
                   line=ev.line)
        elif any(d != len(comps) for d in maybe):
            ctx.undecided('C06-R7', ic, canon(ev.arg(2, 'xi'))[:60], 'cannot relate the branch of __call__ to the branch of the constructor')
        else:
            ctx.ob('C06-R7', ic, f'query point has {len(comps)} component(s) where the grid has {len(comps)} axis/axes', True,
                   'branches of __call__ and of the constructor agree')


def _compatible(call_st, init_st):
    """can the __call__ path be taken on an object the constructor path built?  True / False / None (unknown).
    Attributes of self in the call's path condition are replaced by what the constructor stored; what remains is
    evaluated over the possible lengths of the coordinate lists."""
    heap = init_st.heap

    class Sub(ast.NodeTransformer):
        def visit_Attribute(self, n):
            t = canon(n)
            if t in heap and isinstance(heap[t], ast.AST):
                return clone(heap[t])
            return self.generic_visit(n)
    conds = [(simp_deep(Sub().visit(clone(c))), p) for c, p in call_st.pc if not is_sym(c, '_in_loop')]
    conds += [(c, p) for c, p in init_st.pc if not is_sym(c, '_in_loop') and not is_sym(c, '_raised')]
    qnames = {k for k in call_st.env if k not in ('self', 'cls')} - set(init_st.env)
    # unknowns: len(<expr>) atoms
    atoms = sorted({canon(n) for c, _ in conds for n in ast.walk(c)
                    if isinstance(n, ast.Call) and canon(n.func) == 'len' and len(n.args) == 1})
    if len(atoms) > 3:
        return None
    import itertools
    any_unknown = False
    for combo in itertools.product((1, 2, 3), repeat=len(atoms)):
        val = dict(zip(atoms, combo))

        def atom(n):
            if isinstance(n, ast.Call) and canon(n) in val:
                return val[canon(n)]
            return NotImplemented
        ok = True
        for c, p in conds:
            try:
                if bool(ceval(c, {}, atom)) != p:
                    ok = False
                    break
            except Exception:
                # a test of the query itself (an explicit range test: `n != 1 and not lo <= mass <= hi`) holds for
                # some query and fails for another: its comparisons that read a parameter / local of the call are
                # free, the literal only tells the branches apart by what it says about the object
                sat = _sat_free(c, p, atom, qnames)
                if sat is True:
                    continue
                if sat is False:
                    ok = False
                    break
                # a condition about something else (e.g. the duplicate check): does not tell the branches apart
                if any(canon(n) in val for n in ast.walk(c) if isinstance(n, ast.Call)) or 'self.' in canon(c):
                    any_unknown = True
                continue
        if ok and not any_unknown:
            return True
    return None if any_unknown else False


def _sat_free(c, p, atom, qnames):
    """can condition c take truth value p when its comparisons / all() / any() over the names `qnames` (values the
    caller chooses) are free?  True / False, None when c cannot be evaluated even so"""
    import itertools
    free = []

    def find(n):
        if (isinstance(n, ast.Compare) or (isinstance(n, ast.Call) and isinstance(n.func, ast.Name) and n.func.id in ('all', 'any'))) \
                and any(isinstance(x, ast.Name) and x.id in qnames for x in ast.walk(n)):
            free.append(n)
            return
        for ch in ast.iter_child_nodes(n):
            find(ch)
    find(c)
    if not free or len(free) > 4:
        return None
    try:
        for combo in itertools.product((True, False), repeat=len(free)):
            m = {id(n): v for n, v in zip(free, combo)}

            def atom2(n):
                if id(n) in m:
                    return m[id(n)]
                return atom(n)
            if bool(ceval(c, {}, atom2)) == p:
                return True
        return False
    except Exception:
        return None


def simp_deep(e):
    """simp applied bottom-up"""
    if not isinstance(e, ast.AST):
        return e
    for nme, val in ast.iter_fields(e):
        if isinstance(val, ast.expr):
            setattr(e, nme, simp_deep(val))
        elif isinstance(val, list):
            setattr(e, nme, [simp_deep(x) if isinstance(x, ast.expr) else x for x in val])
    return simp(e) if isinstance(e, ast.expr) else e


# ======================================================================================================
# R5 -- PTF file -> records -> model table
# ======================================================================================================
# oracle: the BADA PTF table layout "FL | CRUISE | CLIMB | DESCENT" and the numbers inside each block, in file order
PTF_BLOCKS = {'cruise': (1, ['tas', 'fuel_flow_low', 'fuel_flow_nom', 'fuel_flow_high']),
              'climb': (2, ['tas', 'rocd_low', 'rocd_nom', 'rocd_high', 'fuel_flow_nom']),
              'descent': (3, ['tas', 'rocd_nom', 'fuel_flow_nom'])}
# unit of each quantity in the PTF file -> SI: factor as an expression over units.py
PTF_UNIT = {'tas': 'KNOTS_TO_MPS', 'rocd': 'FPM_TO_MPS', 'fuel_flow': '1 / MINUTES_TO_SECONDS'}
MASS_SUFFIX = {'low_mass': 'low', 'nominal_mass': 'nom', 'high_mass': 'high'}
# two well-formed table rows (all blocks present; flight level 0 is a legitimate level) and their numbers
PTF_SAMPLES = [
    ('  0 |  272    59.34 63.66 67.27 |  157    5111  3814  2914   86.17  |  144    764   25.85', 0,
     {'cruise': ['272', '59.34', '63.66', '67.27'], 'climb': ['157', '5111', '3814', '2914', '86.17'], 'descent': ['144', '764', '25.85']}),
    ('340 |  447    36.2  40.71 46.05 |  451     2220  1470   860   71.3   |  447   3180    9.   ', 340,
     {'cruise': ['447', '36.2', '40.71', '46.05'], 'climb': ['451', '2220', '1470', '860', '71.3'], 'descent': ['447', '3180', '9.']}),
    ('510 |  459    33.01 38.8  44.4  |  459     1210   640   130   66.02  |  459   2960    8.15', 510,
     {'cruise': ['459', '33.01', '38.8', '44.4'], 'climb': ['459', '1210', '640', '130', '66.02'], 'descent': ['459', '2960', '8.15']}),
]


def _phase_of_record(prog, pt, ptf_cls):
    """record class name -> phase field of PTFData whose list holds it (from the annotations list[Record])"""
    out = {}
    for fld, ann in ptf_cls.annotated_fields().items():
        if isinstance(ann, ast.Subscript) and canon(ann.value) in ('list', 'List', 'Sequence', 'tuple'):
            el = ann.slice.elts[0] if isinstance(ann.slice, ast.Tuple) else ann.slice
            k = prog.resolve_class_expr(pt, el)
            if k is not None:
                out[k.name] = fld
    return out


def rule_ptf(ctx):
    """R5.  (a) build_performance_table: every generated row gives each column (as named by the column list that is
    returned with the rows) a value of that column's role, the mass-dependent columns of the mass the row is for;
    every number of a phase record is emitted, no mass twice, no record left out (conditions a row is generated under
    evaluated on sample records).  The rows are the elements of the returned sequence (`_elements`).  (b) PTFData.load: each record field is the number at
    its own position of its own block, converted with the factor its unit demands (algebra over units.py), descent
    ROCD negated; a well-formed row -- including flight level 0 -- reaches all three record constructors."""
    prog = ctx.prog
    mk = prog.module(MK)
    bt = mk.functions.get('build_performance_table') or prog.resolve_name(mk, 'build_performance_table')
    if not isinstance(bt, FunctionInfo):
        bt = mk.func('build_performance_table')
    prog.consulted.add(bt.file)
    pt = prog.module(PTF)
    ptf_cls = pt.cls('PTFData')
    phase_of = _phase_of_record(prog, pt, ptf_cls)
    rec_fields = {ph: list(pt.cls(rc).annotated_fields()) for rc, ph in phase_of.items()}
    if set(rec_fields) != set(PTF_BLOCKS):
        ctx.undecided('C06-R5', (pt.relpath, 'PTFData'), f'phases {sorted(rec_fields)}', 'phase record lists of PTFData not recognised')
    consts = _units_consts(prog)
    _rule_ptf_table(ctx, bt, rec_fields, consts)
    _rule_ptf_load(ctx, pt, ptf_cls, phase_of, consts)


def _rule_ptf_table(ctx, bt, rec_fields, consts):
    prog = ctx.prog
    eng = Engine(prog)
    ptf_p = bt.params[0] if bt.params else 'ptf'
    try:
        outs = eng.run(bt, args={ptf_p: _name('ptf')})
    except Undecided as ex:
        ctx.undecided('C06-R5', bt, bt.name, str(ex))
    rets = [(v, st) for k, v, st in outs if k == 'return']
    if not rets:
        ctx.undecided('C06-R5', bt, bt.name, 'no returning path')
    # the returned mapping
    colsets, datas = set(), []
    for v, st in rets:
        if not isinstance(v, ast.Dict):
            ctx.undecided('C06-R5', bt, canon(v)[:80], 'the table is not returned as a literal mapping with cols / data')
        d = {k.value: val for k, val in zip(v.keys, v.values) if isinstance(k, ast.Constant)}
        if 'cols' not in d or 'data' not in d:
            ctx.undecided('C06-R5', bt, canon(v)[:80], 'returned mapping has no cols / data')
        cols = eng.const_table(d['cols'], Fr(bt, None, None, ()))
        if not (isinstance(cols, (ast.List, ast.Tuple)) and all(isinstance(x, ast.Constant) and isinstance(x.value, str) for x in cols.elts)):
            ctx.undecided('C06-R5', bt, canon(d['cols'])[:80], 'column list is not a literal list of names')
        colsets.add(tuple(x.value for x in cols.elts))
        datas.append((d['data'], st))
    if len(colsets) != 1:
        ctx.undecided('C06-R5', bt, str(sorted(colsets))[:80], 'column list differs between paths')
    colnames = list(next(iter(colsets)))
    need = ['fl', 'mass', 'tas', 'rocd', 'fuel_flow']
    ok = sorted(colnames) == sorted(need)
    ctx.ob('C06-R5', bt, f'columns {colnames}', ok, 'the five columns the model table needs' if ok else
           f'the generated table does not have exactly the columns {need}', nontrivial=False)
    if not ok:
        return
    # rows: list displays appended / extended into the accumulator that is returned, or the elements of the returned
    # expression itself (displays, concatenations, comprehensions: _elements)
    rows = {}       # key -> (row display, loop tags, line, accumulator | None, conditions the row is generated under)
    fr0 = Fr(bt, None, None, ())

    def templates(e, what):
        try:
            return _elements(eng, fr0, e)
        except _RowForm as ex:
            ctx.undecided('C06-R5', bt, canon(ex.node)[:80], f'{what}: {ex.why}')

    def add_rows(ts, nme, line, pc=()):
        """the templates of one expansion; a template repeated inside one expansion is a row generated twice"""
        seen = {}
        for r, loops, conds in ts:
            if not isinstance(r, (ast.List, ast.Tuple)):
                ctx.undecided('C06-R5', bt, canon(r)[:80], 'row is not a literal list')
            k = canon(r) + ('@' + nme if nme else '')
            seen[k] = seen.get(k, 0) + 1
            rows.setdefault(k + (f'#{seen[k]}' if seen[k] > 1 else ''), (r, loops, getattr(r, 'lineno', 0) or line, nme, tuple(pc) + tuple(conds)))
    acc_names = set()
    opaque = []
    unread = set()      # lists that received something this recogniser does not read as rows
    for dv, st in datas:
        ts = templates(dv, 'returned rows')
        if ts is None:
            ctx.undecided('C06-R5', bt, canon(dv)[:80], 'the data rows that are returned are not the accumulated rows')
        acc_names |= {n.args[0].value for n in ast.walk(dv) if is_sym(n, '_acc')}
        add_rows(ts, None, getattr(dv, 'lineno', 0) or bt.node.lineno)
        for e in st.events:
            if e.kind == 'call' and e.name in ('.append', '.extend') and isinstance(e.node.func, ast.Attribute) \
                    and isinstance(e.node.func.value, ast.Name) and e.args:
                nme = e.node.func.value.id
                loops = tuple(t for t, _ in e.loops)
                if e.name == '.append':
                    if isinstance(e.args[0], (ast.List, ast.Tuple)):
                        rows.setdefault(canon(e.args[0]) + '@' + nme, (e.args[0], loops, e.line, nme, tuple(e.pc)))
                    else:
                        unread.add(nme)
                else:
                    ts = templates(e.args[0], f'rows added to {nme}')
                    if ts is None:
                        opaque.append((nme, e))
                    else:
                        add_rows([(r, loops + lp, cs) for r, lp, cs in ts], nme, e.line, e.pc)
            elif e.kind == 'call' and e.name == '.insert' and isinstance(e.node.func, ast.Attribute) \
                    and isinstance(e.node.func.value, ast.Name):
                unread.add(e.node.func.value.id)
    for nme, e in opaque:
        if nme in acc_names:
            ctx.undecided('C06-R5', bt, canon(e.value)[:80], f'rows added to {nme} are not given as displays or comprehensions')
    unread |= {v[3] for v in rows.values() if v[3] is not None and acc_names and v[3] not in acc_names}
    rows = {k: v for k, v in rows.items() if v[3] is None or v[3] in acc_names or not acc_names}
    # instance floor.  When every addition to every list of the function was read as rows, the rows found are all the
    # rows there are and the obligations below speak for themselves (a phase or mass level without rows is a
    # violation); otherwise fewer rows than the seven of the table layout may mean an idiom that was not followed
    ctx.floor('C06-R5', len(rows), 7 if unread or len(rows) >= 7 else 1, 'generated table rows')
    samples = _sample_records(consts)
    masses_per_phase = {}
    used_fields = {}
    for r, loops, line, _nme, conds in rows.values():
        elts = list(r.elts)
        # the phase is that of the record list the row's record comes from
        rec = next((n for x in elts for n in ast.walk(x) if is_sym(n, '_each')), None)
        phase = None
        if rec is not None:
            src = rec.args[0]
            while isinstance(src, ast.Call) and canon(src.func) in ('sorted', 'list', 'reversed', 'tuple') and src.args:
                src = src.args[0]
            if isinstance(src, ast.Attribute) and canon(src.value) == 'ptf':
                phase = src.attr
        if phase not in rec_fields:
            ctx.undecided('C06-R5', bt, canon(r)[:80], 'row does not come from one of the phase record lists of the PTF data')
        if len(set(loops)) > 1:
            ctx.undecided('C06-R5', bt, canon(r)[:80], f'row generated once per combination of the elements of {sorted(set(loops))}')
        # every record of the phase gets its rows: the conditions the row is generated under (guards on the path,
        # filters of the comprehension) that read the record are evaluated on the sample records
        rect = canon(rec)
        dropped = None
        for cond, pol in conds:
            is_filter = is_sym(cond, '_filter')
            if is_filter:
                cond = cond.args[0]
            if is_sym(cond, '_in_loop') or not any(is_sym(n, '_each') and canon(n) == rect for n in ast.walk(cond)):
                if is_filter:
                    ctx.undecided('C06-R5', bt, canon(cond)[:80], f'filter of a comprehension of {phase} rows that does not read the record')
                continue
            for smp in samples[phase]:
                def atom(n, smp=smp):
                    if isinstance(n, ast.Attribute) and is_sym(n.value, '_each') and canon(n.value) == rect and n.attr in smp:
                        return smp[n.attr]
                    return NotImplemented
                try:
                    val = bool(ceval(cond, {}, atom))
                except Unknown as ex:
                    ctx.undecided('C06-R5', bt, canon(cond).replace(rect, 'r')[:80],
                                  f'condition under which a {phase} row is generated cannot be evaluated on a sample record ({ex})')
                except Exception:
                    val = None
                if val is not pol:
                    dropped = dropped or (cond, pol, smp['fl'])
        if dropped is not None:
            c0 = dropped[0].operand if isinstance(dropped[0], ast.UnaryOp) and isinstance(dropped[0].op, ast.Not) else dropped[0]
            bare_fl = isinstance(c0, ast.Attribute) and c0.attr == 'fl'
            ctx.ob('C06-R5', bt, f'{phase} rows for every record', False,
                   f'the {phase} record of flight level {dropped[2]} gets no row: rows are only generated when '
                   f'`{canon(dropped[0]).replace(rect, "r")[:80]}` is {"true" if dropped[1] else "false"}'
                   + (' (a truthiness test on the flight level drops level 0)' if dropped[2] == 0 and bare_fl else ''), line=line)
        if len(elts) != len(colnames):
            ctx.ob('C06-R5', bt, f'{phase} row has {len(elts)} entries', False,
                   f'row length differs from the column list ({len(colnames)} columns)', line=line)
            continue
        elts = [eng.const_table(x, Fr(bt, None, None, ())) if isinstance(x, ast.Name) else x for x in elts]
        by_col = dict(zip(colnames, elts))
        problems = []

        def rec_attr(x):
            """field of the phase record read by x, or None"""
            c = _col_of(x)
            return c[1] if c is not None and (is_sym(c[0], '_each')) else None
        def bare(x):
            while isinstance(x, ast.Call) and canon(x.func) in ('float', 'int') and len(x.args) == 1 and not x.keywords:
                x = x.args[0]
            return x
        by_col = {k: bare(v) for k, v in by_col.items()}
        mv = by_col['mass']
        mass_attr = mv.attr if isinstance(mv, ast.Attribute) and canon(mv.value) == 'ptf' else None
        msuf = MASS_SUFFIX.get(mass_attr)
        if msuf is None:
            if mass_attr is None and rec_attr(mv) is None and const_value(mv) is None:
                ctx.undecided('C06-R5', bt, canon(mv)[:80], 'value of the mass column not recognised')
            problems.append(f'mass column receives {canon(mv).replace(canon(rec), "r")[:40]}, not one of the PTF mass levels')
        masses_per_phase.setdefault(phase, []).append(msuf)
        for q in ('fl', 'tas'):
            a = rec_attr(by_col[q])
            if a is None and const_value(by_col[q]) is None and not (isinstance(by_col[q], ast.Attribute) and canon(by_col[q].value) == 'ptf'):
                ctx.undecided('C06-R5', bt, canon(by_col[q])[:80], f'value of the {q} column not recognised')
            if a != q:
                problems.append(f'{q} column receives {canon(by_col[q]).replace(canon(rec), "r")[:40]}')
            else:
                used_fields.setdefault(phase, set()).add(a)
        for q in ('rocd', 'fuel_flow'):
            v = by_col[q]
            has_q = [f for f in rec_fields[phase] if f.startswith(q + '_')]
            if const_value(v) is not None or isinstance(v, ast.Constant):
                if has_q or not (q == 'rocd' and const_value(v) == 0):
                    problems.append(f'{q} column receives constant {const_value(v)}' + (f' although the {phase} record has {has_q[0]}' if has_q else ''))
                continue
            a = rec_attr(v)
            if a is None and not (isinstance(v, ast.Attribute) and canon(v.value) == 'ptf'):
                ctx.undecided('C06-R5', bt, canon(v)[:80], f'value of the {q} column not recognised')
            if a is None or not a.startswith(q + '_'):
                problems.append(f'{q} column receives {canon(v).replace(canon(rec), "r")[:40]}')
                continue
            used_fields.setdefault(phase, set()).add(a)
            s = a[len(q) + 1:]
            if msuf and s != msuf and f'{q}_{msuf}' in rec_fields[phase]:
                problems.append(f'{mass_attr} row takes {a} although the {phase} record has {q}_{msuf}')
        shown = ', '.join(canon(x).replace(canon(rec), 'r') for x in elts)
        ctx.ob('C06-R5', bt, f'{phase} row [{shown}]', not problems,
               'every column receives its own quantity, mass-dependent ones of the row\'s mass' if not problems else '; '.join(problems), line=line)
    for ph, flds in rec_fields.items():
        sufs = sorted({f.rsplit('_', 1)[1] for f in flds if f.rsplit('_', 1)[-1] in ('low', 'nom', 'high')})
        got = masses_per_phase.get(ph, [])
        ok = sorted(x for x in got if x) == sufs and len(got) == len(sufs)
        ctx.ob('C06-R5', bt, f'{ph} rows for masses {got}', ok, 'one row per mass level the phase has data for' if ok else
               f'{ph} rows are missing or duplicated for some mass (the PTF {ph} block has data for {sufs})')
        unused = [f for f in flds if f not in used_fields.get(ph, set())]
        ctx.ob('C06-R5', bt, f'{ph} record fields emitted', not unused, 'every number of the record reaches the table' if not unused else
               f'{unused} of the {ph} record never reach the generated table', nontrivial=False)


class _RowForm(Exception):
    """a way of writing a sequence of rows that `_elements` does not follow"""

    def __init__(self, node, why):
        super().__init__(why)
        self.node, self.why = node, why


def _subst_names(e, env):
    """copy of e with the free names that env binds replaced by (copies of) their values; names rebound by a lambda or
    a comprehension inside e are left alone there"""
    class T(ast.NodeTransformer):
        def __init__(self, hidden=frozenset()):
            self.hidden = hidden

        def visit_Name(self, n):
            if isinstance(n.ctx, ast.Load) and n.id in env and n.id not in self.hidden:
                return clone(env[n.id])
            return n

        def visit_Lambda(self, n):
            a = n.args
            names = {x.arg for x in a.posonlyargs + a.args + a.kwonlyargs} | \
                ({a.vararg.arg} if a.vararg else set()) | ({a.kwarg.arg} if a.kwarg else set())
            return T(self.hidden | names).generic_visit(n)

        def _comp(self, n):
            names = {x for g in n.generators for x in assigned_names(g.target)}
            return T(self.hidden | names).generic_visit(n)
        visit_ListComp = visit_SetComp = visit_GeneratorExp = visit_DictComp = _comp
    return T().visit(clone(e))


def _bind_element(t, v, env):
    """bind the target t of a generator to the element v (an expression)"""
    if isinstance(t, ast.Name):
        env[t.id] = v
    elif isinstance(t, (ast.Tuple, ast.List)) and not any(isinstance(x, ast.Starred) for x in t.elts):
        if isinstance(v, (ast.Tuple, ast.List)) and not any(isinstance(x, ast.Starred) for x in v.elts):
            if len(v.elts) != len(t.elts):
                raise _RowForm(v, f'element does not unpack into {len(t.elts)} names')
            for a, b in zip(t.elts, v.elts):
                _bind_element(a, b, env)
        elif isinstance(v, (ast.Constant, ast.Dict, ast.Set, ast.ListComp, ast.GeneratorExp, ast.Lambda)):
            raise _RowForm(v, 'element cannot be unpacked')
        else:
            for i, a in enumerate(t.elts):
                _bind_element(a, ast.Subscript(value=v, slice=_const(i), ctx=ast.Load()), env)
    else:
        raise _RowForm(t, 'generator target not followed')


_SAME_ELEMENTS = ('list', 'tuple', 'sorted', 'reversed', 'iter')      # wrappers that keep the elements of a sequence


def _inlined(eng, fr, e):
    """e with the calls of repository functions it contains replaced by what they return (the engine inlines them),
    when that is one value on one path; e itself otherwise"""
    try:
        if not any(isinstance(n, ast.Call) and not (isinstance(n.func, ast.Name) and n.func.id in ('_each', '_index', '_acc'))
                   and eng.resolve(fr, n) is not None for n in ast.walk(e)):
            return e
        outs = eng.ev(clone(e), St(), fr, [])
    except (Undecided, AnalysisError, RecursionError):
        return e
    if len(outs) == 1 and isinstance(outs[0][0], ast.expr):
        return simp_deep(clone(outs[0][0]))
    return e


def _elements(eng, fr, e, env=None, depth=0):
    """The elements of the sequence-valued expression e as *templates* [(element, loops, conditions)], or None when e
    is an opaque collection.  Followed: displays (with *parts), a + b, list / tuple / sorted / reversed / iter of a
    sequence, itertools.chain(a, b, ...), chain.from_iterable(s) and sum(s, []), module-level literal tables, and
    list comprehensions / generator expressions with any number of generators: the generators are taken left to
    right; one over a sequence whose elements are known is unrolled (its target bound to each element in turn, tuple
    targets unpacked against tuple elements), one over an opaque collection c binds its target to `_each(c)` -- the
    engine's "any element of c" -- and adds c to the template's loops; a filter that folds to a constant is decided,
    any other filter becomes a condition of the template.  Every bound name is substituted and the result folded
    (getattr(x, 'a' + 'b'), zip / enumerate of displays, ...), so a template reads like the argument of the
    corresponding `.append` inside statement loops.  Raises _RowForm for a form that is not followed."""
    if depth > 16:
        raise _RowForm(e, 'sequence expression nested too deeply')
    if env:
        e = _subst_names(e, env)
    e = simp_deep(clone(e))
    while isinstance(e, ast.Call) and isinstance(e.func, ast.Name) and e.func.id in _SAME_ELEMENTS and e.args \
            and not any(isinstance(a, ast.Starred) for a in e.args):
        e = e.args[0]
    if is_sym(e, '_acc'):
        return []               # what was put into an accumulator is in the append / extend events of its name
    if isinstance(e, (ast.Name, ast.Attribute)):
        t = eng.const_table(e, fr)
        if t is e or not isinstance(t, (ast.Tuple, ast.List, ast.Set)):
            return None
        e = t
    if isinstance(e, (ast.List, ast.Tuple, ast.Set)):
        out = []
        for x in e.elts:
            if isinstance(x, ast.Starred):
                sub = _elements(eng, fr, x.value, None, depth + 1)
                if sub is None:
                    return None
                out += sub
            else:
                out.append((x, (), ()))
        return out
    if isinstance(e, ast.BinOp) and isinstance(e.op, ast.Add):
        l = _elements(eng, fr, e.left, None, depth + 1)
        r = _elements(eng, fr, e.right, None, depth + 1)
        return None if l is None or r is None else l + r
    if isinstance(e, ast.Call) and not e.keywords and not any(isinstance(a, ast.Starred) for a in e.args):
        ext = eng.ext_name(fr, e.func) if isinstance(e.func, (ast.Name, ast.Attribute)) else None
        flat = None
        if ext == 'itertools.chain':
            flat = [(a, (), ()) for a in e.args]
        elif ext == 'itertools.chain.from_iterable' and len(e.args) == 1:
            flat = _elements(eng, fr, e.args[0], None, depth + 1)
        elif ext == 'sum' and len(e.args) == 2 and isinstance(e.args[1], (ast.List, ast.Tuple)) and not e.args[1].elts:
            flat = _elements(eng, fr, e.args[0], None, depth + 1)
        if flat is None:
            return None
        out = []
        for part, loops, conds in flat:
            sub = _elements(eng, fr, part, None, depth + 1)
            if sub is None:
                return None
            out += [(x, loops + lp, conds + cs) for x, lp, cs in sub]
        return out
    if isinstance(e, (ast.ListComp, ast.GeneratorExp)):
        ctxs = [({}, (), ())]
        for g in e.generators:
            if g.is_async:
                raise _RowForm(e, 'asynchronous generator')
            nxt = []
            for env1, loops, conds in ctxs:
                it = _inlined(eng, fr, simp_deep(_subst_names(g.iter, env1)))
                if any(is_sym(n, '_acc') for n in ast.walk(it)):
                    raise _RowForm(it, 'the accumulated rows are generated again by a comprehension')
                elems = _elements(eng, fr, it, None, depth + 1)
                if elems is None:
                    core = it
                    while isinstance(core, ast.Call) and isinstance(core.func, ast.Name) and core.func.id in _SAME_ELEMENTS \
                            and len(core.args) == 1:
                        core = core.args[0]
                    if isinstance(core, ast.Call) and canon(core.func) == 'enumerate' and core.args and not core.keywords \
                            and isinstance(g.target, (ast.Tuple, ast.List)) and len(g.target.elts) == 2:
                        # for i, x in enumerate(c): x is any element of c, i its position
                        el = ast.Tuple(elts=[_call('_index', core.args[0]), _call('_each', core.args[0])], ctx=ast.Load())
                        tag = canon(core.args[0])
                    else:
                        el, tag = _call('_each', it), canon(it)
                    elems = [(el, (tag,), ())]
                for el, lp, cs in elems:
                    env2 = dict(env1)
                    _bind_element(g.target, el, env2)
                    conds2 = conds + cs
                    keep = True
                    for c in g.ifs:
                        cv = simp_deep(_subst_names(c, env2))
                        if isinstance(cv, ast.Constant):
                            keep = keep and bool(cv.value)
                        else:
                            conds2 += ((_call('_filter', cv), True),)
                    if keep:
                        nxt.append((env2, loops + lp, conds2))
                if len(nxt) > 400:
                    raise _RowForm(e, 'too many combinations in a comprehension')
            ctxs = nxt
        return [(_inlined(eng, fr, simp_deep(_subst_names(e.elt, env1))), loops, conds) for env1, loops, conds in ctxs]
    return None


def _sample_records(consts):
    """phase -> the records a correct reader makes of the three sample rows (SI units, descent ROCD negative)"""
    out = {}
    for ph, (_, order) in PTF_BLOCKS.items():
        out[ph] = []
        for _text, fl, nums in PTF_SAMPLES:
            rec = {'fl': fl}
            for f, x in zip(order, nums[ph]):
                q = next(k for k in PTF_UNIT if f.startswith(k))
                nf = _nf(ast.parse(PTF_UNIT[q], mode='eval').body, consts)
                fac = float(nf.const()) if nf is not None and not nf.atoms() else 1.0
                rec[f] = float(x) * fac * (-1.0 if ph == 'descent' and q == 'rocd' else 1.0)
            out[ph].append(rec)
    return out


def _rule_ptf_load(ctx, pt, ptf_cls, phase_of, consts):
    prog = ctx.prog
    ld = ptf_cls.find_method('load')
    if ld is None:
        ctx.undecided('C06-R5', (pt.relpath, 'PTFData'), 'load', 'loader not found')
    eng = Engine(prog, cap=30000)
    try:
        outs = eng.run(ld, self_cls=ptf_cls)
    except Undecided as ex:
        ctx.undecided('C06-R5', ld, 'load', str(ex))
    rec_classes = {rc: ph for rc, ph in phase_of.items()}
    # constructor events of the three record classes, one per (site, path condition about the row)
    sites = {}
    for kind, v, st in outs:
        for e in st.events:
            if e.kind == 'ctor' and e.cls.name in rec_classes and e.cls.module is pt:
                sites.setdefault((e.cls.name, e.line, canon(e.value)), []).append(e)
    nconv = 0
    reached = {ph: [] for ph in PTF_BLOCKS}
    partial = {ph: [] for ph in PTF_BLOCKS}      # rows with other blocks blank: (flight level, blank blocks, blocking conditions, line)
    invented = {ph: [] for ph in PTF_BLOCKS}     # rows whose own block is blank and that reach the record all the same
    seen_guard = set()                           # phases whose "has the block its numbers" test was evaluated on a blank block
    # the row being parsed: the loop element of the innermost loop the constructors sit in
    for (cname, line, _), evs in sorted(sites.items(), key=lambda kv: kv[0][1]):
        e = evs[0]
        ph = rec_classes[e.cls.name]
        block, order = PTF_BLOCKS[ph]
        flds = list(e.cls.annotated_fields())
        given = dict(zip(flds, e.args))
        given.update(e.kwargs)
        rows = [n for val in given.values() for n in ast.walk(val) if is_sym(n, '_each')]
        if not rows:
            ctx.undecided('C06-R5', ld, canon(e.value)[:80], 'record is not built from a line of the file')
        row = max(rows, key=lambda n: len(canon(n)))
        rowt = canon(row)

        def on_sample(expr, text, row=row, rowt=rowt):
            def atom(n):
                if is_sym(n, '_each') and canon(n) == rowt:
                    return text
                if isinstance(n, ast.Name):
                    # a module-level compiled pattern / constant of the parser module
                    r = prog.resolve_name(pt, n.id)
                    if isinstance(r, tuple) and r[0] == 'const':
                        return ceval(r[1].constants[r[2]], {})
                return NotImplemented
            return ceval(expr, {}, atom)
        for f in flds:
            v = given.get(f)
            if v is None:
                ctx.ob('C06-R5', ld, f'{cname}.{f}', False, f'{f} is not set', line=line)
                continue
            if f == 'fl':
                bad = None
                for text, fl, _ in PTF_SAMPLES:
                    try:
                        got = on_sample(v, text)
                    except Unknown as ex:
                        ctx.undecided('C06-R5', ld, canon(v)[:80], f'flight level of the row cannot be evaluated on a sample row ({ex})')
                    except Exception as ex:
                        got = f'{type(ex).__name__}'
                    if got != fl or isinstance(got, bool):
                        bad = (fl, got)
                ctx.ob('C06-R5', ld, f'{cname}.fl = first column of the row', bad is None,
                       'row flight level' if bad is None else f'a row of flight level {bad[0]} is recorded as {bad[1]!r}', line=line, nontrivial=False)
                continue
            q = next((x for x in PTF_UNIT if f.startswith(x)), None)
            if q is None or f not in order:
                ctx.undecided('C06-R5', ld, f'{cname}.{f}', 'record field without a PTF column')
            nconv += 1
            want_idx = order.index(f)
            want_neg = ph == 'descent' and q == 'rocd'
            nf = _nf(v, consts)
            factor = _nf(ast.parse(PTF_UNIT[q], mode='eval').body, consts)
            why = None
            ok = False
            if nf is None or len(nf.atoms()) > 1:
                ctx.undecided('C06-R5', ld, canon(v)[:80], f'{f} is not written as one number of the row times a constant')
            if not nf.atoms():
                why = f'{f} is a constant, not a number of the row'
            else:
                a = next(iter(nf.atoms()))
                c = _coefficient(nf, a)
                if c is None:
                    why = f'{f} is not proportional to the number read'
                else:
                    if abs(c) != factor.const():
                        why = f'{f} is not converted with {PTF_UNIT[q]} (factor {float(c):.6g}, expected {float(factor.const()):.6g})'
                    elif (c < 0) != want_neg:
                        why = 'descent ROCD sign convention broken' if want_neg else f'{f} is negated'
                    else:
                        # which token of which block: evaluate the token on the sample rows
                        tok = ast.parse(a, mode='eval').body
                        for text, _, nums in PTF_SAMPLES:
                            try:
                                got = on_sample(tok, text)
                            except Unknown as ex:
                                ctx.undecided('C06-R5', ld, a[:80], f'cannot evaluate the token on a sample row ({ex})')
                            except Exception as ex:
                                got = type(ex).__name__
                            def same(g, x):
                                if isinstance(g, str):
                                    return g.strip() == x
                                return isinstance(g, (int, float)) and not isinstance(g, bool) and float(g) == float(x)
                            if not same(got, nums[ph][want_idx]):
                                where = next((f'number {i} of the {p2} block' for p2, ns in nums.items() for i, x in enumerate(ns)
                                              if same(got, x)), repr(got))
                                why = f'{f} reads {where}, expected number {want_idx} of the {ph} block'
                                break
                        ok = why is None
            ctx.ob('C06-R5', ld, f'{cname}.{f} = {canon(v).replace(rowt, "line")[:70]}', ok,
                   f'number {want_idx} of the {ph} block × {PTF_UNIT[q]}' + (' negated (descent)' if want_neg else '') if ok else why, line=line)
        # reachability: the conditions about the row under which the record is built, evaluated on a row
        def blockers(text, evs=evs, rowt=rowt, on_sample=on_sample):
            """(conditions that keep the row from the record on the path that comes closest, all conditions decided?)"""
            best, sure = None, True
            for ev in evs:
                fails, decided = [], True
                for cond, pol in ev.pc:
                    c2 = cond.args[1] if is_sym(cond, '_in_loop') else cond
                    if not any(is_sym(n, '_each') and canon(n) == rowt for n in ast.walk(c2)):
                        continue
                    if any(is_sym(n, '_loopvar') or is_sym(n, '_maybe') for n in ast.walk(c2)):
                        decided = False
                        continue
                    try:
                        val = bool(on_sample(c2, text))
                    except Unknown:
                        decided = False
                        continue
                    except Exception:
                        val = None
                    if val is not pol:
                        fails.append((c2, pol))
                if best is None or len(fails) < len(best):
                    best, sure = fails, decided
                if not fails:
                    break
            return best, sure
        for text, fl, _ in PTF_SAMPLES:
            reached[ph].append((fl, blockers(text)[0], line))
        # ... and on the same rows with some blocks left blank (BADA leaves the CRUISE block of the levels below the
        # cruise range blank): every block is read on its own
        for text, fl, blank in _partial_rows():
            fails, sure = blockers(text)
            if ph in blank:
                if fails:
                    seen_guard.add(ph)
                # only a record whose numbers can be computed from the row counts: where reading the blank block fails
                # (an index / unpacking error) the path may be one an exception handler takes over
                if not fails and sure:
                    try:
                        vals = {f: on_sample(v, text) for f, v in given.items() if f != 'fl'}
                    except Exception:
                        vals = None
                    if vals and all(isinstance(x, (int, float)) and not isinstance(x, bool) for x in vals.values()):
                        invented[ph].append((fl, blank, line, vals))
            else:
                partial[ph].append((fl, blank, fails, line))
    ctx.floor('C06-R5/conv', nconv, 12, 'PTF field conversions')
    # the blank-block rows decide something only where the loader's own "block has its numbers" tests can be evaluated
    ctx.floor('C06-R5/blank', len(seen_guard), 1, 'block guards evaluated on rows with a blank block')
    for ph in PTF_BLOCKS:
        if not reached[ph]:
            ctx.ob('C06-R5', ld, f'{ph} records are built', False, f'no {ph} record is constructed by the loader')
            continue
        bad = [(fl, fails, line) for fl, fails, line in reached[ph] if fails]
        ok = not bad
        ctx.ob('C06-R5', ld, f'a well-formed table row reaches the {ph} record (flight levels {sorted({fl for fl, _, _ in reached[ph]})})', ok,
               'rows are skipped only when they have no flight level / too few columns' if ok else
               (f'a data row of flight level {bad[0][0]} is skipped: the record is only built when '
                f'`{_show_row(bad[0][1][0][0])[:90]}` is {"true" if bad[0][1][0][1] else "false"}, which it is not for this row'
                + (' (a truthiness test on the flight level drops level 0)' if bad[0][0] == 0 else '')),
               line=(bad[0][2] if bad else ld.node.lineno))
        if not partial[ph]:
            continue
        # rows with blank blocks: judged against the complete row of the same level, which must itself get through
        whole = {fl for fl, fails, _ in reached[ph] if not fails}
        bad = [(fl, blank, fails, line) for fl, blank, fails, line in partial[ph] if fails and fl in whole]
        order = list(PTF_BLOCKS)
        bad.sort(key=lambda b: (len(b[1]), sorted(order.index(x) for x in b[1]), b[0]))      # the simplest such row first
        ok = not bad
        if ok:
            why = f'the {ph} block is read whatever the other blocks of the row hold'
        else:
            fl, blank, fails, _ = bad[0]
            names = ' and '.join(x.upper() for x in sorted(blank, key=order.index))
            why = (f'a row of flight level {fl} whose {names} block is blank'
                   + (' (as BADA PTF files have below the cruise levels)' if blank == frozenset({'cruise'}) else '')
                   + f' gives no {ph} record: the record is only built when `{_show_row(fails[0][0])[:90]}` is '
                   f'{"true" if fails[0][1] else "false"}, which it is not for this row, so the {ph.upper()} numbers of '
                   f'the row are dropped and the generated model does not reproduce them')
        ctx.ob('C06-R5', ld, f'a table row with other blocks blank still reaches the {ph} record', ok, why,
               line=(bad[0][3] if bad else ld.node.lineno))
        inv = invented[ph]
        ctx.ob('C06-R5', ld, f'a blank {ph} block gives no {ph} record', not inv,
               f'the {ph} record is built only from a row that has {ph} numbers' if not inv else
               f'a row of flight level {inv[0][0]} whose {ph.upper()} block is blank still gives a {ph} record '
               f'({", ".join(f"{f}={x:.6g}" for f, x in list(inv[0][3].items())[:3])}, ...): numbers that are not in that block '
               f'of the row', line=(inv[0][2] if inv else ld.node.lineno))


def _partial_rows():
    """the sample rows with every proper non-empty subset of their blocks blanked out: (text, flight level, blank blocks)"""
    out = []
    phases = list(PTF_BLOCKS)
    for text, fl, _ in PTF_SAMPLES:
        cells = text.split('|')
        for mask in range(1, 2 ** len(phases) - 1):
            blank = frozenset(ph for i, ph in enumerate(phases) if mask >> i & 1)
            c2 = [(' ' * len(c) if any(PTF_BLOCKS[ph][0] == i for ph in blank) else c) for i, c in enumerate(cells)]
            out.append(('|'.join(c2), fl, blank))
    return out


def _show_row(e) -> str:
    """text of an expression over the current file line, the loop element written as `line`"""
    class T(ast.NodeTransformer):
        def visit_Call(self, n):
            if is_sym(n, '_each'):
                return _name('line')
            return self.generic_visit(n)
    return canon(T().visit(clone(e)))


def run(ctx):
    rule_constants(ctx)
    rule_no_extrapolation(ctx)
    rule_validation(ctx)
    rule_masses(ctx)
    rule_ptf(ctx)
    rule_layout(ctx)
    ctx.note('exact reciprocals still leave a 1-ulp float residue at some levels; that residue is outside what a constants rule decides')
    ctx.assumptions += ['scipy.interpolate.interpn / RegularGridInterpolator raise for points outside the grid unless bounds_error is '
                        'given and false; interp1d raises unless bounds_error is false or fill_value="extrapolate"',
                        'node exactness / boundedness / continuity of linear interpolation are scipy numerics (not decided)']
