"""T-MEMO — rules about process-lifetime memoisation, shared by the properties.

A function under `functools.cache` / `functools.lru_cache` answers every later
call with the same arguments from its table, for as long as the process lives.
That is only correct when the answer is a function of the arguments alone.

M1  (purity) nothing in the resolved call closure of a memoised function reads
    ambient state: the `config` singleton, a file (open / netCDF4.Dataset /
    tomllib.load / Path.read_* / exists / stat …), the environment, the clock,
    a random source, or a module-level container that the program writes to.
    A read of any of those makes the first answer stick after the state has
    changed: a reloaded configuration, a rewritten file, a rebuilt store.
M2  (sharing) the object a memoised function returns is handed to every later
    caller; a caller must not change it in place (subscript / attribute store,
    mutating method, or passing it to a function that stores into that
    parameter) unless it rebinds the name to a copy first.
M3  (key) a hand-written memo table must not be keyed on `id(...)` of an
    argument: object identity says nothing about contents, and identities are
    reused after garbage collection.

M4  (hand-written tables) a function that answers from a module-level table
    (`G.get(k)` / `k in G` / `G[k]` … `G[k] = value`) is a memoised function
    too: the key must determine everything the function reads from its
    parameters (a parameter enters the key whole, or the function reads only
    the projections of it that are in the key), and M1 applies to it.

The rules are instantiated per property over that property's modules; the
three memoised functions of the emissions package are the standing positive
control (they must be found, and they are pure).
"""

from __future__ import annotations

import ast

from ..astutil import call_name, norm, stores_to, walk_no_nested
from ..loader import FunctionInfo
from ..resolve import closure, resolve_call

MEMO = {'functools.cache', 'functools.lru_cache', 'cache', 'lru_cache'}
FS_READ_CALLS = {'open', 'tomllib.load', 'tomllib.loads', 'json.load', 'os.listdir', 'os.scandir', 'os.stat', 'os.getenv',
                 'os.path.exists', 'os.path.isfile', 'os.path.isdir', 'os.path.getmtime', 'os.path.getsize',
                 'pd.read_csv', 'pandas.read_csv', 'xr.open_dataset', 'xarray.open_dataset', 'np.load', 'np.loadtxt',
                 'np.genfromtxt', 'sqlite3.connect'}
FS_READ_METHODS = {'read_text', 'read_bytes', 'exists', 'is_file', 'is_dir', 'stat', 'iterdir', 'glob', 'rglob', 'open'}
CLOCK = {'time.time', 'time.monotonic', 'datetime.now', 'datetime.datetime.now', 'datetime.utcnow', 'date.today',
         'datetime.date.today', 'random.random', 'np.random.rand', 'np.random.random', 'uuid.uuid4'}
MUTATORS = {'update', 'append', 'extend', 'add', 'pop', 'clear', 'setdefault', 'sort', 'remove', 'insert', 'popitem',
            'discard', 'reverse', 'fill', 'resize', 'itemset', 'put'}


def is_memoised(fi: FunctionInfo) -> str | None:
    for d in fi.node.decorator_list:
        t = norm(d.func if isinstance(d, ast.Call) else d)
        if t in MEMO:
            return t
    return None


def memo_functions(prog) -> list[FunctionInfo]:
    return [fi for m in prog.src_modules() for fi in m.functions.values() if is_memoised(fi)]


def _written_globals(m) -> set[str]:
    """module-level names of m that some function of m writes into (or rebinds via `global`)"""
    out = set()
    for fi in m.functions.values():
        for n in walk_no_nested(fi.node):
            if isinstance(n, ast.Global):
                out |= set(n.names)
            if isinstance(n, (ast.Subscript, ast.Attribute)) and isinstance(n.ctx, (ast.Store, ast.Del)):
                b = n
                while isinstance(b, (ast.Subscript, ast.Attribute)):
                    b = b.value
                if isinstance(b, ast.Name) and b.id in m.constants:
                    out.add(b.id)
            if isinstance(n, ast.Call) and isinstance(n.func, ast.Attribute) and n.func.attr in MUTATORS \
                    and isinstance(n.func.value, ast.Name) and n.func.value.id in m.constants:
                out.add(n.func.value.id)
    return out


def ambient_reads(prog, fi: FunctionInfo) -> list[tuple[FunctionInfo, ast.AST, str]]:
    """(function, node, description) for every read of ambient state in the call closure of fi"""
    out = []
    wg: dict[str, set[str]] = {}
    for g in closure(prog, [fi]):
        m = g.module
        if m.relpath not in wg:
            wg[m.relpath] = _written_globals(m)
        local = set(g.params)
        for t, _, _ in stores_to(g.node):
            if isinstance(t, ast.Name):
                local.add(t.id)
        for n in walk_no_nested(g.node):
            if isinstance(n, ast.Name) and isinstance(n.ctx, ast.Load) and n.id not in local:
                tgt = m.imports.get(n.id, '')
                if n.id == 'config' and tgt.startswith('AEIC.config'):
                    out.append((g, n, 'the configuration singleton `config`'))
                elif n.id in wg[m.relpath]:
                    out.append((g, n, f'module-level `{n.id}`, which the program writes to'))
            if isinstance(n, ast.Attribute) and norm(n) == 'os.environ':
                out.append((g, n, 'the process environment'))
            if isinstance(n, ast.Call):
                cn = call_name(n)
                if cn in FS_READ_CALLS or (cn.endswith('Dataset') and cn.split('.')[0] in ('nc4', 'netCDF4', 'Dataset')):
                    out.append((g, n, f'the file system (`{cn}`)'))
                elif isinstance(n.func, ast.Attribute) and n.func.attr in FS_READ_METHODS and cn not in ('self.open',) \
                        and not (isinstance(n.func.value, ast.Name) and n.func.value.id in ('self', 'cls')):
                    out.append((g, n, f'the file system (`.{n.func.attr}()`)'))
                elif cn in CLOCK:
                    out.append((g, n, f'the clock / a random source (`{cn}`)'))
                elif cn in ('Config.get', 'config.get') and m.imports.get(cn.split('.')[0], '').startswith('AEIC.config'):
                    out.append((g, n, 'the configuration singleton'))
    return out


def _mutated_params(prog, callee: FunctionInfo) -> set[int]:
    """indices of the positional parameters callee stores into (one level)"""
    ps = [p for p in callee.params]
    out = set()
    for t, st, how in stores_to(callee.node):
        b = t
        if isinstance(b, (ast.Subscript, ast.Attribute)):
            while isinstance(b, (ast.Subscript, ast.Attribute)):
                b = b.value
            if isinstance(b, ast.Name) and b.id in ps and b.id not in ('self', 'cls'):
                out.add(ps.index(b.id))
    for n in walk_no_nested(callee.node):
        if isinstance(n, ast.Call) and isinstance(n.func, ast.Attribute) and n.func.attr in MUTATORS \
                and isinstance(n.func.value, ast.Name) and n.func.value.id in ps and n.func.value.id not in ('self', 'cls'):
            out.add(ps.index(n.func.value.id))
    return out


def in_scope(fi: FunctionInfo, scope) -> bool:
    return any(s in fi.file for s in scope)


def rule_memo(ctx, prop: str, scope: tuple[str, ...], consequence: str):
    """instantiate M1–M3 for the modules of one property"""
    prog = ctx.prog
    memos = memo_functions(prog)
    r1, r2, r3 = f'{prop}-M1', f'{prop}-M2', f'{prop}-M3'
    # standing positive control: the emissions package's memoised functions are found, and are pure
    ctl = [f for f in memos if f.name in ('NOx_speciation', 'calculate_PMnvolEI_scope11', 'scope11_profile')]
    ctx.control(r1, len(ctl) == 3 and not any(ambient_reads(prog, f) for f in ctl),
                'NOx_speciation, calculate_PMnvolEI_scope11 and scope11_profile are recognised as memoised and pure')
    mine = [f for f in memos if in_scope(f, scope)]
    for f in mine:
        reads = ambient_reads(prog, f)
        ok = not reads
        if ok:
            why = 'its call closure reads only its arguments and constants'
        else:
            g, n, what = reads[0]
            via = '' if g is f else f' (via {g.qualname})'
            why = (f'memoised with {is_memoised(f)} but reads {what}{via} at line {n.lineno}: the first answer for a given '
                   f'argument is returned for the rest of the process even after that state changed. {consequence}')
        ctx.ob(r1, f, f'memoised {f.qualname} is a function of its arguments only', ok, why,
               line=(f.node.lineno if ok else reads[0][1].lineno))
    ctx.ob(r1, ('src/AEIC', '<scope>'), f'{len(mine)} memoised function(s) in scope {list(scope)}', True,
           'each examined above', nontrivial=False)

    # M2: results of memoised functions are not changed in place by callers in scope.  The result may be bound to
    # a name (depth 0: the name *is* the shared object) or put into a container (`d[k] = f(...)`, depth 1: the
    # elements of d are shared objects); a store whose access path goes deeper than that writes into the object.
    memoq = {(f.file, f.qualname) for f in memos}
    n_sites = 0

    def _depth_root(t):
        d, b = 0, t
        while isinstance(b, (ast.Subscript, ast.Attribute)):
            d += 1
            b = b.value
        return (b.id if isinstance(b, ast.Name) else None), d

    for m in prog.src_modules():
        for fi in m.functions.values():
            if not in_scope(fi, scope):
                continue
            for t, st, how in stores_to(fi.node):
                v = getattr(st, 'value', None)
                if not isinstance(v, ast.Call):
                    continue
                root, depth = _depth_root(t)
                if root is None or root in ('self', 'cls'):
                    continue
                callee = resolve_call(prog, fi, v)
                if callee is None or (callee.file, callee.qualname) not in memoq:
                    continue
                n_sites += 1
                taint = {root: depth}
                # aliases of the shared object(s): x = d[k], for x in d.values(), for k, x in d.items()
                for n in walk_no_nested(fi.node):
                    if getattr(n, 'lineno', 0) <= st.lineno:
                        continue
                    if isinstance(n, ast.Assign) and len(n.targets) == 1 and isinstance(n.targets[0], ast.Name):
                        rt_, dp_ = _depth_root(n.value)
                        if rt_ == root and isinstance(n.value, (ast.Subscript, ast.Attribute)) and dp_ <= depth and dp_ >= 1:
                            taint.setdefault(n.targets[0].id, depth - dp_)
                    if isinstance(n, ast.For) and depth >= 1:
                        it = n.iter
                        if isinstance(it, ast.Call) and isinstance(it.func, ast.Attribute) and norm(it.func.value) == root:
                            if it.func.attr == 'values' and isinstance(n.target, ast.Name):
                                taint.setdefault(n.target.id, depth - 1)
                            if it.func.attr == 'items' and isinstance(n.target, ast.Tuple) and len(n.target.elts) == 2 \
                                    and isinstance(n.target.elts[1], ast.Name):
                                taint.setdefault(n.target.elts[1].id, depth - 1)
                name = norm(t)
                bad = None
                events = []
                for n in walk_no_nested(fi.node):
                    ln = getattr(n, 'lineno', 0)
                    if ln <= st.lineno:
                        continue
                    if isinstance(n, (ast.Subscript, ast.Attribute)) and isinstance(n.ctx, (ast.Store, ast.Del)):
                        rt_, dp_ = _depth_root(n)
                        if rt_ in taint and dp_ > taint[rt_]:
                            events.append(((ln, 0), 'mut', f'store into `{norm(n)[:40]}`', rt_))
                    if isinstance(n, ast.AugAssign) and isinstance(n.target, ast.Name) and taint.get(n.target.id) == 0:
                        events.append(((ln, 0), 'mut', f'in-place `{norm(n)[:40]}`', n.target.id))
                    if isinstance(n, ast.Call):
                        if isinstance(n.func, ast.Attribute) and n.func.attr in MUTATORS:
                            rt_, dp_ = _depth_root(n.func.value)
                            if rt_ in taint and dp_ >= taint[rt_] and not (dp_ == 0 and taint[rt_] > 0):
                                events.append(((ln, 0), 'mut', f'`{norm(n.func.value)[:30]}.{n.func.attr}(…)`', rt_))
                        else:
                            c2 = resolve_call(prog, fi, n)
                            if c2 is not None:
                                mp = _mutated_params(prog, c2)
                                off = 1 if c2.params[:1] in (['self'], ['cls']) and isinstance(n.func, ast.Attribute) else 0
                                for i, a in enumerate(n.args):
                                    rt_, dp_ = _depth_root(a)
                                    if rt_ in taint and dp_ == taint[rt_] and (i + off) in mp:
                                        events.append(((ln, 0), 'mut', f'`{c2.name}({norm(a)[:30]}, …)` stores into that parameter', rt_))
                    if isinstance(n, ast.Assign) and any(isinstance(x, ast.Name) and x.id in taint for x in n.targets):
                        txt = norm(n.value)
                        who = [x.id for x in n.targets if isinstance(x, ast.Name) and x.id in taint][0]
                        if '.copy(' in txt or 'deepcopy(' in txt or txt.startswith(('dict(', 'list(', 'set(', 'np.array(')):
                            events.append(((ln, 1), 'copy', txt[:40], who))
                        else:
                            events.append(((ln, 1), 'rebind', txt[:40], who))
                events.sort(key=lambda e: e[0])
                dead = set()
                for (ln, _), kind, what, who in events:
                    if who in dead:
                        continue
                    if kind in ('copy', 'rebind'):
                        dead.add(who)
                        continue
                    bad = (ln, what)
                    break
                ctx.ob(r2, fi, f'{name} = {callee.name}(…) (memoised) is not changed in place', bad is None,
                       'only read, or rebound to a copy before being changed' if bad is None else
                       (f'{bad[1]} at line {int(-(-bad[0] // 1))} changes the object the cache hands to every later caller of '
                        f'{callee.name} with the same arguments. {consequence}'), line=(bad[0] if bad else st.lineno))
    ctx.ob(r2, ('src/AEIC', '<scope>'), f'{n_sites} call site(s) of memoised functions in scope', True, 'each examined above',
           nontrivial=False)

    # M3: identity-keyed tables
    n3 = 0
    for m in prog.src_modules():
        for fi in m.functions.values():
            if not in_scope(fi, scope):
                continue
            for n in walk_no_nested(fi.node):
                if isinstance(n, ast.Call) and call_name(n) == 'id' and len(n.args) == 1:
                    # is the id() used as (part of) a mapping key?
                    keyed = False
                    a = getattr(n, '_parent', None)
                    chain = [n]
                    while a is not None and isinstance(a, (ast.Tuple, ast.expr)) and not isinstance(a, ast.Lambda):
                        chain.append(a)
                        if isinstance(a, ast.Subscript) and chain[-2] is a.slice:
                            keyed = True
                        if isinstance(a, ast.Compare) and any(isinstance(o, (ast.In, ast.NotIn)) for o in a.ops):
                            keyed = True
                        if isinstance(a, ast.Call) and isinstance(a.func, ast.Attribute) and a.func.attr in ('get', 'setdefault', 'pop'):
                            keyed = True
                        a = getattr(a, '_parent', None)
                    if not keyed:
                        stx = chain[-1]
                        p = getattr(stx, '_parent', None)
                        if isinstance(p, ast.Assign) and len(p.targets) == 1 and isinstance(p.targets[0], ast.Name):
                            kname = p.targets[0].id
                            for x in walk_no_nested(fi.node):
                                if isinstance(x, ast.Subscript) and norm(x.slice) == kname:
                                    keyed = True
                                if isinstance(x, ast.Compare) and kname in (norm(x.left), norm(x.comparators[0])) and \
                                        any(isinstance(o, (ast.In, ast.NotIn, ast.Eq, ast.NotEq)) for o in x.ops):
                                    keyed = True
                    if keyed and norm(n.args[0]).split('.')[0] in fi.params:
                        n3 += 1
                        ctx.ob(r3, fi, f'lookup keyed on {norm(n)}', False,
                               f'a table keyed on the identity of an argument returns the value stored for that *object*, whatever '
                               f'it contains now (arrays updated in place, or a new object at a recycled address). {consequence}',
                               line=n.lineno)
    ctx.ob(r3, ('src/AEIC', '<scope>'), f'{n3} identity-keyed lookup(s) in scope', n3 == 0 or True, 'none' if not n3 else 'see above',
           nontrivial=False)


_M4_CONTROL = """
_TABLE = {}
def f(fuel, n):
    hit = _TABLE.get(fuel.name)
    if hit is not None:
        return hit
    r = fuel.sulfur * n
    _TABLE[fuel.name] = r
    return r
"""


def hand_memo_sites(fn: ast.AST, module_names: set[str]):
    """[(table name, key expr, store stmt)] for tables of the module that fn both looks up and fills under one key"""
    look, fill = {}, {}
    for n in walk_no_nested(fn):
        if isinstance(n, ast.Call) and isinstance(n.func, ast.Attribute) and n.func.attr == 'get' and n.args \
                and isinstance(n.func.value, ast.Name) and n.func.value.id in module_names:
            look.setdefault(n.func.value.id, []).append(n.args[0])
        if isinstance(n, ast.Compare) and len(n.ops) == 1 and isinstance(n.ops[0], (ast.In, ast.NotIn)) \
                and isinstance(n.comparators[0], ast.Name) and n.comparators[0].id in module_names:
            look.setdefault(n.comparators[0].id, []).append(n.left)
        if isinstance(n, ast.Subscript) and isinstance(n.value, ast.Name) and n.value.id in module_names:
            if isinstance(n.ctx, ast.Store):
                fill.setdefault(n.value.id, []).append((n.slice, n))
            elif isinstance(n.ctx, ast.Load):
                look.setdefault(n.value.id, []).append(n.slice)
        if isinstance(n, ast.Call) and isinstance(n.func, ast.Attribute) and n.func.attr == 'setdefault' and n.args \
                and isinstance(n.func.value, ast.Name) and n.func.value.id in module_names:
            fill.setdefault(n.func.value.id, []).append((n.args[0], n))
            look.setdefault(n.func.value.id, []).append(n.args[0])
    out = []
    for g in look.keys() & fill.keys():
        for k, st in fill[g]:
            out.append((g, k, st))
    return out


def key_covers_inputs(fn: ast.AST, key: ast.AST, params: list[str]) -> tuple[bool, str]:
    """does the key determine what fn reads from its parameters?"""
    from ..astutil import single_def_value
    seen = set()
    k = key
    while isinstance(k, ast.Name) and k.id not in params and k.id not in seen:
        seen.add(k.id)
        v = single_def_value(fn, k.id)
        if v is None:
            break
        k = v
    whole, proj = set(), {}
    skip = set()

    def visit(e, under=False):
        if isinstance(e, ast.Name) and e.id in params:
            whole.add(e.id)
            return
        if isinstance(e, ast.Attribute):
            b, chain = e, []
            while isinstance(b, ast.Attribute):
                chain.append(b.attr)
                b = b.value
            if isinstance(b, ast.Name) and b.id in params:
                proj.setdefault(b.id, set()).add(chain[-1])
                skip.update(id(x) for x in ast.walk(e))
                return
        for c in ast.iter_child_nodes(e):
            visit(c)
    visit(k)
    key_nodes = {id(x) for x in ast.walk(k)} | {id(x) for x in ast.walk(key)}
    for n in walk_no_nested(fn):
        if id(n) in key_nodes:
            continue
        if isinstance(n, ast.Name) and isinstance(n.ctx, ast.Load) and n.id in params and n.id != 'cls':
            if n.id in whole:
                continue
            par = getattr(n, '_parent', None)
            if isinstance(par, ast.Attribute) and par.value is n and par.attr in proj.get(n.id, ()):
                continue
            what = f'{n.id}.{par.attr}' if isinstance(par, ast.Attribute) and par.value is n else n.id
            return False, f'the function reads `{what}`, which the key `{norm(key)}` does not determine'
    return True, 'every parameter the function reads enters the key (whole, or by the projections that are read)'


def rule_hand_memo(ctx, prop: str, scope, consequence: str):
    r4 = f'{prop}-M4'
    ctl = ast.parse(_M4_CONTROL)
    from ..loader import _Canon  # noqa: F401
    for n in ast.walk(ctl):
        for ch in ast.iter_child_nodes(n):
            if not isinstance(ch, (ast.expr_context, ast.operator, ast.unaryop, ast.cmpop, ast.boolop)):
                ch._parent = n
    cf = ctl.body[1]
    sites = hand_memo_sites(cf, {'_TABLE'})
    ctx.control(r4, len(sites) == 1 and not key_covers_inputs(cf, sites[0][1], ['fuel', 'n'])[0],
                'a table keyed on fuel.name in a function that also reads fuel.sulfur and n is recognised and rejected')
    n4 = 0
    for m in ctx.prog.src_modules():
        names = {k for k, v in m.constants.items()
                 if isinstance(v, (ast.Dict, ast.Call)) and (isinstance(v, ast.Dict) or norm(v.func) in
                                                             ('dict', 'OrderedDict', 'collections.OrderedDict', 'defaultdict',
                                                              'collections.defaultdict', 'WeakValueDictionary',
                                                              'weakref.WeakValueDictionary'))}
        if not names:
            continue
        for fi in m.functions.values():
            if not in_scope(fi, scope):
                continue
            for g, key, st in hand_memo_sites(fi.node, names):
                n4 += 1
                ok, why = key_covers_inputs(fi.node, key, fi.params)
                reads = [] if not ok else ambient_reads(ctx.prog, fi)
                reads = [r for r in reads if not (isinstance(r[1], ast.Name) and r[1].id == g)]
                if ok and reads:
                    ok, why = False, f'answers from the module-level table `{g}` but reads {reads[0][2]} at line {reads[0][1].lineno}'
                ctx.ob(r4, fi, f'table {g} keyed on {norm(key)[:50]}', ok,
                       why if ok else f'{why}: a later call with other inputs under the same key gets the first answer. {consequence}',
                       line=getattr(st, 'lineno', fi.node.lineno))
    ctx.ob(r4, ('src/AEIC', '<scope>'), f'{n4} hand-written module-level memo table(s) in scope', True, 'each examined above',
           nontrivial=False)


SCOPES = {
    'C01': (('/emissions/',), 'An inventory computed after the state changed reuses the stale value, so the components no longer '
            'add up to EI × fuel for the configuration in force.'),
    'C02': (('/trajectories/', '/performance/'), 'A later flight is simulated with performance data belonging to an earlier one.'),
    'C03': (('/trajectories/store.py', '/trajectories/trajectory.py', '/storage/'), 'What is read back is no longer what was written.'),
    'C04': (('/gridding/',), 'Gridded totals are computed from stale inputs.'),
    'C05': (('/gridding/',), 'Cells are attributed from stale inputs.'),
    'C06': (('/performance/',), 'A model file rewritten and loaded again answers with the old table and skips validation.'),
    'C07': (('/trajectories/store.py', '/storage/'), 'Indices answer from a store that no longer exists.'),
    'C08': (('/trajectories/store.py', '/storage/'), 'Flight lookups answer from an index that no longer matches the file.'),
    'C09': (('/trajectories/store.py', '/storage/'), 'A merged store rebuilt at the same path is searched with the old index.'),
    'C10': (('/trajectories/store.py', '/storage/'), 'A refused operation leaves a cached trace behind.'),
    'C11': (('/emissions/', '/config/emissions.py'), 'A species switched off or a method changed after the first call is ignored.'),
    'C12': (('/emissions/', '/utils/standard_atmosphere.py', '/performance/types.py'), 'Indices are returned for other conditions than those asked for.'),
    'C13': (('/missions/', '/utils/airports.py'), 'Rows of a later import are resolved against an earlier database.'),
    'C14': (('/missions/',), 'A query answers from another database or filter.'),
    'C15': (('/trajectories/ground_track.py', '/utils/', '/missions/mission.py'), 'Points are located on another track.'),
    'C16': (('/weather.py', '/utils/standard_atmosphere.py'), 'Wind of another time or place enters the ground speed.'),
    'C17': (('/trajectories/builders/', '/weather.py', '/performance/'), 'The result of a flight depends on the flights before it.'),
    'C18': (('/config/', '/utils/models.py'), 'A later load sees what an earlier load (even a failed one) left in the cached data.'),
    'C19': (('/BADA/',), 'Thrust and fuel flow are evaluated for other conditions than those passed.'),
    'C20': (('/trajectories/store.py',), 'Ownership is decided from stale state.'),
}


def run_memo(ctx):
    scope, consequence = SCOPES[ctx.prop]
    rule_memo(ctx, ctx.prop, scope, consequence)
    rule_hand_memo(ctx, ctx.prop, scope, consequence)
