"""C10 — rejected or interrupted store operations lose and corrupt nothing.

The rules are stated over the CFG (with rejection edges), the resolved call
graph and the summarised effects of callees, not over the spelling of `add`
and `merge`: a check may live in `add` or in a helper that `add` calls before
it changes anything, bookkeeping may be done in place or by a side-effect-free
helper, the metadata may be written by `merge` or by a helper it calls last, a
file name may be a literal or a module constant.

R1  validate-before-mutate in TrajectoryStore.add (T-ORDER + effects, decided
    by forward dataflow on the CFG with rejection edges): no store to the
    store's logical state (directly, or through a bookkeeping helper whose
    closure touches no file) may still be in effect when a *rejection* leaves
    the function.  Accepted idioms: the store comes after the last rejection, or
    the path runs through a catch-all handler that restores that attribute
    from a copy saved before the store (or pops the inserted key) and
    re-raises.  The saved copy may be a local, one target of an unpacked
    display, element k of a saved display (`saved[k]`) or field f of a saved
    record (`plan.f`, the record built once by a constructor call), restored
    in the handler or in a helper that is handed the copy / the record.
    A block guarded by a context manager of the repository is such a handler
    too: `with K(self, ..) as v:` (or `p = K(self); with p:`) with K a class
    whose constructor / __enter__ keep the store and copies of its attributes
    in fields, and whose __exit__ - under no other condition than "the block
    raised" - puts those fields back (or removes the inserted key) and does
    not swallow the exception; or `with self.m(..) as v:` with m a
    contextlib.contextmanager generator whose single `yield` is the body of a
    try with one catch-all, re-raising handler that restores from locals bound
    before the `yield`.  The restores are applied on every exceptional edge
    that leaves the block; the copies count as saved where the with statement
    is entered.  An __exit__ that may swallow, restores under another
    condition or delegates the rollback is undecided, never a pass.
R1b a rejection that judges the trajectory's own data (a missing required
    value: a raise control-dependent on `<field>.required` and a None test) is
    reachable in the write path after earlier fields of the same record were
    already written to the file; so the same rejection must have been decided,
    on every path, before the first mutation, in `add` or in a helper it calls
    first (also when the raise depends on the verdict of a resolved helper:
    `missing = self._first_missing(t); if missing is not None: raise`), that
    pre-validation must not be conditional on state that is only populated
    later in the same call, and the loop that walks the fields may be left
    early (`return` / `break`) only with the verdict "required and missing".
R1c the three documented rejections are decided before the first mutation
    (write mode, schema, identifier use), recognised by what their conditions
    read (control dependence + single-definition locals), wherever they live;
    none of them is conditional on state that add itself populates later in the
    same call, other than the attribute the rejection is about (an identifier
    check made only when the trajectory cache is non-empty is skipped for the
    first addition of an append session).
R2  validate-before-mutate in merge: no `raise` of merge, or of a validation
    helper it calls, is reachable after a file-system effect; no callee that
    runs after an effect can still refuse the merge's inputs; the same inside
    a builder that merge hands the checked inputs to (at every level of the
    call chain: no refusal after an effect of that level).  Reading a
    @property / cached_property of a repository class runs its getter: a
    getter that can refuse is a validation step made where the property is
    first read (also when a callee reads it), so that read must precede every
    effect; a later read of the same property of the same object only
    repeats the verdict when an earlier read (or a method of the object that
    reads it) is executed on every path before every effect and nothing in
    between stores to what the getter reads.
R3  the metadata file (the write-mode open / write_text of the `*.json` that
    readers require; the file name followed through constants, locals,
    accessor properties / methods and class-level constants of repository
    classes) is written last: at every level
    of the call chain from merge to the function that opens it, every other
    file-system effect precedes the step that writes it and none follows; no
    handler - in merge or inside a callee that runs before the write - catches
    the failure of a file-system step without passing it on.
R4  inputs are relocated only by os.rename / Path.rename (zero-expected +
    positive control); after the first input has been moved nothing on any
    path, handlers included, deletes or copies anything (decided in the
    function that deletes).
R5  a value cached lazily from the container's field definitions is reset
    wherever those definitions are rebound (the schema check compares it).
R6  the trajectory cache refuses an eviction before removing anything.
"""

from __future__ import annotations

import ast

from ..astutil import first_stmt, last_stmt  # noqa: F401
from ..astutil import stores_to  # noqa: F401
from ..astutil import (MUTATING_METHODS, ancestors, call_name, calls_in, guards_of, local_defs,
                       norm, single_def_value, stmt_of, walk_no_nested)
from ..cfg import CFG
from ..effects import Effects, fs_effect_of_call
from ..loader import dotted_name
from ..resolve import closure, expr_class, resolve_call, self_attr_stores

STORE = 'trajectories/store.py'

# attributes written in `add` that are *not* logical content, with the reason
NOT_CONTENT = {
    '_file_creation_pending': 'file linkage: once _create() has made the files they exist, '
                              'restoring True would make the next add fail with "already exists"',
}


def _self_mutations(stmt: ast.stmt):
    """[(attr, how, key_text)] for mutations of self.<attr> by a simple statement."""
    out = []
    tgts = []
    if isinstance(stmt, ast.Assign):
        tgts = [(t, 'assign') for t in stmt.targets]
    elif isinstance(stmt, ast.AugAssign):
        tgts = [(stmt.target, 'aug')]
    elif isinstance(stmt, ast.AnnAssign) and stmt.value is not None:
        tgts = [(stmt.target, 'assign')]
    elif isinstance(stmt, ast.Delete):
        tgts = [(t, 'del') for t in stmt.targets]
    for t, how in tgts:
        elts = t.elts if isinstance(t, (ast.Tuple, ast.List)) else [t]
        for pos, e in enumerate(elts):
            key = None
            if isinstance(t, (ast.Tuple, ast.List)) and how == 'assign':
                how = f'assign@{pos}'
            b = e
            if isinstance(b, ast.Subscript):
                key = norm(b.slice)
                b = b.value
                how2 = 'elem-' + how
            else:
                how2 = how
            if isinstance(b, ast.Attribute) and dotted_name(b.value) == 'self':
                out.append((b.attr, how2, key))
            if how.startswith('assign@'):
                how = 'assign'
    if isinstance(stmt, ast.Expr) and isinstance(stmt.value, ast.Call):
        c = stmt.value
        if isinstance(c.func, ast.Attribute) and c.func.attr in MUTATING_METHODS:
            b = c.func.value
            if isinstance(b, ast.Attribute) and dotted_name(b.value) == 'self':
                key = norm(c.args[0]) if c.args else None
                out.append((b.attr, 'call-' + c.func.attr, key))
    return out


def _catch_all_reraising_handler(stmt: ast.AST):
    for a in ancestors(stmt):
        if isinstance(a, (ast.FunctionDef, ast.AsyncFunctionDef)):
            return None
        if isinstance(a, ast.ExceptHandler):
            catch_all = a.type is None or any(
                norm(t).split('.')[-1] in ('BaseException', 'Exception')
                for t in (a.type.elts if isinstance(a.type, ast.Tuple) else [a.type]))
            last = last_stmt(a.body)
            reraises = isinstance(last, ast.Raise) and (
                last.exc is None or (a.name and isinstance(last.exc, ast.Name) and last.exc.id == a.name))
            if catch_all and reraises:
                return a
            return None
    return None


def _heads(n):
    s = n.stmt
    if s is None or n.kind in ('finally', 'dispatch', 'join', 'except'):
        return []
    if n.kind == 'stmt':
        return [s]
    if n.kind == 'test':
        return [s.test]
    if n.kind == 'iter':
        return [s.iter]
    if n.kind == 'with':
        return [i.context_expr for i in s.items]
    if n.kind == 'match':
        return [s.subject]
    if n.kind == 'case':
        return [s.guard] if getattr(s, 'guard', None) is not None else []
    return []


# ------------------------------------------------------------------------------------------------------------------
# what a raise depends on: control dependence + the values its conditions read
# ------------------------------------------------------------------------------------------------------------------

class Conditions:
    """conditions a statement of fn is control-dependent on (transitively, inside fn): syntactic guards plus the
    CFG's control dependence (guard clauses with `continue` / early `return`), and what those conditions read"""

    def __init__(self, fn, prog=None):
        self.fn = fn
        self.prog = prog
        self.g = CFG(fn.node)

        def eo(a, b, lab):
            return lab != 'e' or isinstance(self.g.nodes[a].stmt, ast.Raise)
        self.pdom = self.g.postdominators([self.g.exit, self.g.raise_exit], edge_ok=eo)
        self._eo = eo

    def _only_raises(self, nid) -> bool:
        """every path from nid ends in the exceptional exit"""
        g = self.g
        k = ('or', nid)
        if k not in self.__dict__.setdefault('_memo', {}):
            seen, st, ok = {nid}, [nid], True
            while st and ok:
                x = st.pop()
                if x == g.exit:
                    ok = False
                for y, lab in g.succ[x]:
                    if not self._eo(x, y, lab):
                        continue
                    if y not in seen:
                        seen.add(y)
                        st.append(y)
            self._memo[k] = ok
        return self._memo[k]

    def controlling(self, stmt) -> list[tuple[ast.expr, bool]]:
        """path conditions of stmt: the branch edges every path from the function's entry to stmt runs through
        (edge dominance; covers nested ifs, guard clauses with `continue` / early `return`, loop heads), without the
        conditions of earlier rejections (`if c: raise …` makes everything after it depend on `not c`)"""
        g = self.g
        out = []
        targets = set(g.nodes_of(stmt))
        live = self.g._reach(self._eo)
        if not targets or not (targets & live):
            # a statement inside a handler (reached over exceptional edges only): its syntactic guards
            return [(t, pol, o) for t, pol, o in guards_of(stmt)]
        for t in g.nodes:
            if t.kind not in ('test', 'iter') or t.id in targets:
                continue
            for b, lab in g.succ[t.id]:
                if lab not in ('t', 'f'):
                    continue
                # is some target reachable from the entry without using the edge t -> b ?
                seen, st, hit = {g.entry}, [g.entry], False
                while st and not hit:
                    x = st.pop()
                    for y, l2 in g.succ[x]:
                        if (x == t.id and y == b and l2 == lab) or not self._eo(x, y, l2):
                            continue
                        if y in targets:
                            hit = True
                            break
                        if y not in seen:
                            seen.add(y)
                            st.append(y)
                if hit:
                    continue
                others = [b2 for b2, l2 in g.succ[t.id] if l2 in ('t', 'f') and b2 != b]
                if others and all(self._only_raises(o) for o in others) and not any(t.stmt is a for a in ancestors(stmt)):
                    continue
                if t.kind == 'test':
                    out.append((t.stmt.test, lab == 't', t.stmt))
                elif lab == 't':
                    out.append((t.stmt.iter, None, t.stmt))
        # conditional expressions / short circuits around the statement itself
        for t, pol, o in guards_of(stmt):
            if not any(t is x for x, _, _ in out):
                out.append((t, pol, o))
        return out

    def reads(self, stmt) -> dict:
        """what the conditions of stmt read: single-definition locals resolved, and a condition that is the verdict
        of a resolved helper (`missing = self._first_missing(t)` / `if not self._acceptable(t): raise`) reads what
        the helper's returned values and the conditions of its returns read"""
        exprs = [(t, self.fn) for t, _, _ in self.controlling(stmt)]
        seen_names = set()
        opened = {(self.fn.file, self.fn.qualname)}
        helpers = []
        i = 0
        while i < len(exprs) and i < 120:
            e, fn = exprs[i]
            for x in ast.walk(e):
                if isinstance(x, ast.Name) and (fn.qualname, x.id) not in seen_names:
                    seen_names.add((fn.qualname, x.id))
                    v = single_def_value(fn.node, x.id)
                    if v is not None:
                        exprs.append((v, fn))
                    else:
                        # a loop target: what it iterates over
                        for d in local_defs(fn.node, x.id):
                            if isinstance(d, (ast.For, ast.AsyncFor)):
                                exprs.append((d.iter, fn))
                elif isinstance(x, ast.Call) and self.prog is not None and len(opened) < 6:
                    callee = resolve_call(self.prog, fn, x)
                    if callee is None or (callee.file, callee.qualname) in opened or callee.name == '__init__':
                        continue
                    opened.add((callee.file, callee.qualname))
                    cc = Conditions(callee, self.prog)
                    helpers.append(cc)
                    for r in walk_no_nested(callee.node):
                        if isinstance(r, ast.Return):
                            if r.value is not None:
                                exprs.append((r.value, callee))
                            exprs += [(t, callee) for t, _, _ in cc.controlling(r)]
            i += 1
        seen_names = {n for _, n in seen_names}
        exprs = [e for e, _ in exprs]
        r = {'attrs': set(), 'self_attrs': set(), 'consts': set(), 'none_test': False, 'hash_cmp': False, 'names': seen_names,
             'calls': set(), 'opened': [c.fn for c in helpers]}
        for e in exprs:
            for x in ast.walk(e):
                if isinstance(x, ast.Attribute):
                    (r['self_attrs'] if dotted_name(x.value) == 'self' else r['attrs']).add(x.attr)
                elif isinstance(x, ast.Constant) and isinstance(x.value, str):
                    r['consts'].add(x.value)
                elif isinstance(x, ast.Call):
                    r['calls'].add(call_name(x))
                elif isinstance(x, ast.Compare):
                    sides = [x.left] + list(x.comparators)
                    if any(isinstance(s, ast.Constant) and s.value is None for s in sides):
                        r['none_test'] = True
                    hs = [s for s in sides if isinstance(s, ast.Call) and (call_name(s) == 'hash' or call_name(s).endswith('.__hash__'))]
                    if len(hs) >= 2:
                        r['hash_cmp'] = True
        return r


def _is_required_value_rejection(rd: dict) -> bool:
    return 'required' in rd['attrs'] and rd['none_test']


# ------------------------------------------------------------------------------------------------------------------
# context managers that hold the rollback state of the block they guard
# ------------------------------------------------------------------------------------------------------------------

class _ToCaller(ast.NodeTransformer):
    """an expression / statement of a method of a context-manager object, rewritten into the terms of the function
    that runs `with K(args) as v`: a parameter of the constructor is the argument it was given, an attribute of the
    object that merely names another object (`self._store = store`) is that object, any other attribute of the object
    is `<obj>.<field>` (its value is whatever the constructor / __enter__ put there).  `ok` turns False when a name is
    met whose value the caller cannot see."""

    def __init__(self, selfname, env, alias, obj, loc=None, saved=()):
        self.selfname, self.env, self.alias, self.obj, self.loc, self.ok = selfname, env, alias, obj, loc, True
        self.saved = set(saved)      # locals of a generator-based manager that live as long as the block: `<obj>.<name>`

    def visit_Attribute(self, x):
        if isinstance(x.value, ast.Name) and x.value.id == self.selfname:
            if x.attr in self.alias:
                return ast.Name(id=self.alias[x.attr], ctx=ast.Load())
            return ast.Attribute(value=ast.Name(id=self.obj, ctx=ast.Load()), attr=x.attr, ctx=x.ctx)
        return self.generic_visit(x)

    def visit_Name(self, x):
        import copy
        if x.id == self.selfname:
            return ast.Name(id=self.obj, ctx=x.ctx)
        if x.id in self.saved:
            return ast.Attribute(value=ast.Name(id=self.obj, ctx=ast.Load()), attr=x.id, ctx=ast.Load())
        if x.id in self.env:
            return copy.deepcopy(self.env[x.id])
        if self.loc is not None and isinstance(x.ctx, ast.Load):
            v = single_def_value(self.loc, x.id)
            if v is not None and not any(isinstance(y, (ast.Call, ast.Await, ast.Yield)) for y in ast.walk(v)):
                return self.visit(copy.deepcopy(v))
        self.ok = False
        return x


def _bind_args(fnode, call, skip_self=True) -> dict | None:
    """parameter name -> argument expression of `call` (constant defaults filled in); None when not decidable"""
    a = fnode.args
    if a.vararg or a.kwarg or any(isinstance(x, ast.Starred) for x in call.args) or any(k.arg is None for k in call.keywords):
        return None
    pos = [x.arg for x in a.posonlyargs + a.args][1 if skip_self else 0:]
    env = {}
    if len(call.args) > len(pos):
        return None
    for p, v in zip(pos, call.args):
        env[p] = v
    names = pos + [x.arg for x in a.kwonlyargs]
    for k in call.keywords:
        if k.arg not in names or k.arg in env:
            return None
        env[k.arg] = k.value
    dpos = dict(zip(reversed(pos), reversed(a.defaults)))
    dkw = {x.arg: d for x, d in zip(a.kwonlyargs, a.kw_defaults) if d is not None}
    for p in names:
        if p not in env:
            d = dpos.get(p, dkw.get(p))
            if d is None or not isinstance(d, ast.Constant):
                return None
            env[p] = d
    return env


def context_manager_of(prog, fn, item, obj_name, call=None):
    """`with K(args) as v` in fn, K a repository class with __exit__: what the object holds when the block is entered
    and what its __exit__ does when the block raised, in the terms of fn.

    -> None (not such a class) or a dict: cls, exit (the method), var (name bound by `as`, or None), var_is
    ('object' | expression in fn's terms | None), obj (name the object goes by in the rewritten statements),
    fields {field: expression of fn evaluated when the with statement is entered, or None when not decidable},
    alias {field: name of fn the field merely refers to}, actions [(rewritten statement, original statement, guards
    decided: None when every condition on it says "the block raised", else the text of the condition that does
    not)], propagates (True / text of the return that may swallow the exception), enter_writes (rewritten statements
    of the constructor / __enter__ that store into an object of fn), delegated [text of calls __exit__ makes on the
    object or on an aliased object that are not followed]."""
    import copy
    e = call if call is not None else item.context_expr
    if not isinstance(e, ast.Call):
        return None
    K = prog.resolve_class_expr(fn.module, e.func)
    if K is None:
        return None
    ex = K.find_method('__exit__')
    if ex is None:
        return None
    var = item.optional_vars.id if isinstance(item.optional_vars, ast.Name) else None
    obj = obj_name
    fields: dict = {}
    alias: dict = {}
    entered: set = set()
    enter_writes = []
    undecidable = set()

    def run(meth, env):
        selfname = meth.params[0] if meth.params else 'self'
        for st in meth.node.body:
            tgt = st.targets[0] if isinstance(st, ast.Assign) and len(st.targets) == 1 else \
                st.target if isinstance(st, ast.AnnAssign) and st.value is not None else None
            if isinstance(tgt, ast.Attribute) and isinstance(tgt.value, ast.Name) and tgt.value.id == selfname:
                tr = _ToCaller(selfname, env, alias, obj, meth.node)
                v = tr.visit(copy.deepcopy(st.value))
                # a field read back (`self.b = self.a`) holds what that field holds
                if isinstance(v, ast.Attribute) and isinstance(v.value, ast.Name) and v.value.id == obj and v.attr in fields:
                    v = fields[v.attr]
                alias.pop(tgt.attr, None)
                if tr.ok and isinstance(v, ast.Name):
                    alias[tgt.attr] = v.id
                fields[tgt.attr] = v if tr.ok else None
                continue
            for x in ast.walk(st):
                if isinstance(x, ast.Attribute) and isinstance(x.ctx, (ast.Store, ast.Del)) and \
                        isinstance(x.value, ast.Name) and x.value.id == selfname:
                    undecidable.add(x.attr)     # stored under a condition / in a loop / by unpacking
            if isinstance(st, (ast.Assign, ast.AugAssign, ast.AnnAssign, ast.Delete, ast.Expr)):
                tr = _ToCaller(selfname, env, alias, obj, meth.node)
                st2 = tr.visit(copy.deepcopy(st))
                if _self_mutations(st2):
                    enter_writes.append(st2)

    ini = K.find_method('__init__')
    if ini is not None:
        env = _bind_args(ini.node, e)
        if env is None:
            return dict(cls=K, what=f'{K.name}.__exit__', exit=ex, var=var, obj=obj, undecided=f'the arguments of {K.name}(…) cannot be matched to its constructor')
        run(ini, env)
    else:
        names = list(K.annotated_fields())
        defaults = K.class_assignments() if hasattr(K, 'class_assignments') else {}
        if any(isinstance(a_, ast.Starred) for a_ in e.args) or any(k.arg is None for k in e.keywords) or len(e.args) > len(names):
            return dict(cls=K, what=f'{K.name}.__exit__', exit=ex, var=var, obj=obj, undecided=f'the arguments of {K.name}(…) cannot be matched to its fields')
        given = dict(zip(names, e.args))
        given.update({k.arg: k.value for k in e.keywords})
        for f in names:
            v = given.get(f, defaults.get(f))
            fields[f] = v
            if isinstance(v, ast.Name):
                alias[f] = v.id
        post = K.find_method('__post_init__')
        if post is not None:
            run(post, {})
    en = K.find_method('__enter__')
    var_is = None
    if en is not None:
        before_enter = dict(fields)
        run(en, {})
        entered = {f for f in fields if fields[f] is not before_enter.get(f)}
        rets = [r for r in walk_no_nested(en.node) if isinstance(r, ast.Return)]
        if len(rets) == 1 and rets[0].value is not None:
            tr = _ToCaller(en.params[0], {}, alias, obj, en.node)
            rv = tr.visit(copy.deepcopy(rets[0].value))
            if tr.ok and isinstance(rv, ast.Name) and rv.id == obj:
                var_is = 'object'
            elif tr.ok and isinstance(rv, ast.Attribute) and isinstance(rv.value, ast.Name) and rv.value.id == obj:
                var_is = fields.get(rv.attr)
            elif tr.ok:
                var_is = rv
    for f in undecidable:
        fields[f] = None
        alias.pop(f, None)
    # a field given a value anywhere else in the class is not the value saved at the entry
    for meth in K.methods.values():
        if meth.name in ('__init__', '__post_init__', '__enter__'):
            continue
        for attr, st, how in self_attr_stores(meth):
            if attr in fields:
                fields[attr] = None
                alias.pop(attr, None)

    # what __exit__ does when the block raised
    selfname = ex.params[0] if ex.params else 'self'
    excs = set(ex.params[1:])
    cc = Conditions(ex, prog)

    def says_raised(t, pol) -> bool:
        if isinstance(t, ast.UnaryOp) and isinstance(t.op, ast.Not):
            return pol is not None and says_raised(t.operand, not pol)
        if isinstance(t, ast.BoolOp) and isinstance(t.op, ast.And) and pol is True:
            return all(says_raised(v, True) for v in t.values)
        if isinstance(t, ast.BoolOp) and isinstance(t.op, ast.Or) and pol is False:
            return all(says_raised(v, False) for v in t.values)
        subj = t
        if isinstance(t, ast.Compare) and len(t.ops) == 1 and isinstance(t.comparators[0], ast.Constant) and \
                t.comparators[0].value is None and isinstance(t.ops[0], (ast.Is, ast.IsNot, ast.Eq, ast.NotEq)):
            subj = t.left
            if isinstance(t.ops[0], (ast.Is, ast.Eq)):
                pol = (not pol) if pol is not None else None
        elif isinstance(t, ast.Call) and call_name(t) == 'issubclass' and len(t.args) == 2 and \
                norm(t.args[1]).split('.')[-1] in ('BaseException', 'Exception'):
            subj = t.args[0]
        while isinstance(subj, ast.Subscript):
            subj = subj.value
        return pol is True and isinstance(subj, ast.Name) and subj.id in excs

    def guard_of(st):
        for t, pol, _ in cc.controlling(st):
            if not says_raised(t, pol):
                return f'{"" if pol else "not "}({norm(t)[:60]})'
        return None

    actions, delegated = [], []
    for st in walk_no_nested(ex.node):
        if not isinstance(st, (ast.Assign, ast.AugAssign, ast.AnnAssign, ast.Delete, ast.Expr)):
            continue
        tr = _ToCaller(selfname, {}, alias, obj, ex.node)
        st2 = tr.visit(copy.deepcopy(st))
        ast.fix_missing_locations(st2)
        if _self_mutations(st2):
            actions.append((st2, st, guard_of(st)))
            continue
        for c in calls_in(st2):
            b = c.func.value if isinstance(c.func, ast.Attribute) else None
            if isinstance(b, ast.Name) and (b.id == obj or b.id in alias.values()):
                delegated.append(norm(c)[:60])
    propagates = True
    for r in walk_no_nested(ex.node):
        if isinstance(r, ast.Return) and r.value is not None and not (isinstance(r.value, ast.Constant) and not r.value.value):
            # a truthy / computed result swallows the exception - unless that return is only taken when nothing was raised
            if not any(says_raised(t, (not pol) if pol is not None else None) for t, pol, _ in cc.controlling(r)):
                propagates = f'`{norm(r)[:50]}` (line {int(r.lineno)})'
    return dict(cls=K, what=f'{K.name}.__exit__', exit=ex, var=var, var_is=var_is, obj=obj, fields=fields, entered=entered, alias=alias, actions=actions,
                propagates=propagates, enter_writes=enter_writes, delegated=delegated, undecided=None)


def generator_manager_of(prog, fn, item, obj_name):
    """`with f(args) as v` in fn, f a repository function decorated with contextlib.contextmanager: the same
    description as context_manager_of gives for a class.  The locals the generator binds once before its `yield` are
    the fields of the object; the body of the catch-all, re-raising handler around the `yield` is what runs when the
    block raised.  None when f is not such a function or touches no object of fn."""
    import copy
    e = item.context_expr
    if not isinstance(e, ast.Call):
        return None
    gf = resolve_call(prog, fn, e)
    if gf is None or not any(d.split('.')[-1] in ('contextmanager', 'contextmanager()') for d in gf.decorators()):
        return None
    var = item.optional_vars.id if isinstance(item.optional_vars, ast.Name) else None
    obj = obj_name
    what = f'{gf.qualname} (a generator-based context manager)'
    is_method = gf.cls is not None and gf.params[:1] in (['self'], ['cls']) and not any('staticmethod' in d for d in gf.decorators())
    env = _bind_args(gf.node, e, skip_self=is_method)
    if env is None:
        return dict(cls=None, what=what, exit=gf, var=var, obj=obj, undecided=f'the arguments of {gf.name}(…) cannot be matched to its parameters')
    if is_method:
        recv = e.func.value if isinstance(e.func, ast.Attribute) else None
        if not isinstance(recv, ast.Name):
            return dict(cls=None, what=what, exit=gf, var=var, obj=obj, undecided=f'the receiver of {gf.name}(…) is not a plain name')
        env[gf.params[0]] = ast.Name(id=recv.id, ctx=ast.Load())
    ys = [y for y in walk_no_nested(gf.node) if isinstance(y, (ast.Yield, ast.YieldFrom))]
    params = set(gf.params)
    saved = {}
    for x in walk_no_nested(gf.node):
        if isinstance(x, ast.Name) and isinstance(x.ctx, ast.Store) and x.id not in params:
            saved[x.id] = single_def_value(gf.node, x.id)

    def to_caller(node):
        tr = _ToCaller(None, env, {}, obj, None, saved=saved)
        out = tr.visit(copy.deepcopy(node))
        ast.fix_missing_locations(out)
        return out, tr.ok

    writes = []
    for st in walk_no_nested(gf.node):
        if isinstance(st, (ast.Assign, ast.AugAssign, ast.AnnAssign, ast.Delete, ast.Expr)):
            st2, _ = to_caller(st)
            if _self_mutations(st2):
                writes.append((st2, st))
    if not writes:
        return None       # holds no state of fn's object: exceptions pass through it unchanged
    if len(ys) != 1 or isinstance(ys[0], ast.YieldFrom):
        return dict(cls=None, what=what, exit=gf, var=var, obj=obj, undecided=f'{gf.name} does not have exactly one plain `yield`')
    ystmt = stmt_of(ys[0])
    tries = [a for a in ancestors(ystmt) if isinstance(a, ast.Try)]
    other = [a for a in ancestors(ystmt) if isinstance(a, (ast.For, ast.AsyncFor, ast.While, ast.If, ast.With, ast.AsyncWith, ast.Match))]
    handler = None
    if len(tries) == 1 and not other and any(ystmt is b for b in tries[0].body) and not tries[0].finalbody and not tries[0].orelse \
            and len(tries[0].handlers) == 1:
        h = tries[0].handlers[0]
        if h.body and _catch_all_reraising_handler(h.body[0]) is h:
            handler = h
    if handler is None:
        return dict(cls=None, what=what, exit=gf, var=var, obj=obj,
                    undecided=f'{gf.name} changes the store, but its `yield` is not the direct body of a try with one catch-all, '
                              're-raising handler (and no finally / else): what happens when the block raises is not followed')
    fields = {}
    before = []
    top = tries[0]
    seq = []
    for st in gf.node.body:
        if st is top:
            seq += [b for b in top.body[:next(i for i, b in enumerate(top.body) if b is ystmt)]]
            break
        seq.append(st)
    else:
        return dict(cls=None, what=what, exit=gf, var=var, obj=obj, undecided=f'the try around the `yield` of {gf.name} is nested')
    for st in seq:
        tgt = st.targets[0] if isinstance(st, ast.Assign) and len(st.targets) == 1 else \
            st.target if isinstance(st, ast.AnnAssign) and st.value is not None else None
        if isinstance(tgt, ast.Name) and saved.get(tgt.id) is st.value:
            v, ok = to_caller(st.value)
            if isinstance(v, ast.Attribute) and isinstance(v.value, ast.Name) and v.value.id == obj and v.attr in fields:
                v = fields[v.attr]
            fields[tgt.id] = v if ok else None
    for n_ in saved:
        fields.setdefault(n_, None)
    inside = {id(x) for st in seq for x in ast.walk(st)} | {id(x) for x in ast.walk(handler)}
    enter_writes = [st2 for st2, st in writes if id(st) in {id(x) for s_ in seq for x in ast.walk(s_)}]
    stray = [st for st2, st in writes if id(st) not in inside]
    if stray:
        return dict(cls=None, what=what, exit=gf, var=var, obj=obj,
                    undecided=f'{gf.name} also changes the store after the block ended normally (`{norm(stray[0])[:50]}`): not followed')
    actions, delegated = [], []
    for st in handler.body:
        for x in [st] + list(walk_no_nested(st)):
            if not isinstance(x, (ast.Assign, ast.AugAssign, ast.AnnAssign, ast.Delete, ast.Expr)):
                continue
            st2, _ = to_caller(x)
            if _self_mutations(st2):
                g_ = [f'{"" if pol else "not "}({norm(t)[:60]})' for t, pol, _ in guards_of(x, stop=handler)]
                actions.append((st2, x, g_[0] if g_ else None))
            else:
                for c in calls_in(x):
                    b = c.func.value if isinstance(c.func, ast.Attribute) else None
                    if isinstance(b, ast.Name) and isinstance(env.get(b.id), ast.Name) and resolve_call(prog, gf, c) is not None:
                        delegated.append(norm(c)[:60])
    var_is = None
    if ys[0].value is not None:
        rv, ok = to_caller(ys[0].value)
        if ok and isinstance(rv, ast.Attribute) and isinstance(rv.value, ast.Name) and rv.value.id == obj:
            var_is = fields.get(rv.attr)
        elif ok:
            var_is = rv
    return dict(cls=None, what=what, exit=gf, var=var, var_is=var_is, obj=obj, fields=fields, alias={}, actions=actions,
                propagates=True, enter_writes=enter_writes, delegated=delegated, undecided=None)


def forward_edges(g, init, transfer, join, edge_ok=None, edge_transfer=None):
    """CFG.forward with a transfer function per edge as well: `edge_transfer(a, b, label, state)` is applied to the
    state an edge carries (an exception that leaves a `with` block runs the context manager's __exit__ on the way)"""
    ins = {g.entry: init}
    outs = {}
    work = [g.entry]
    while work:
        n = work.pop()
        st = ins[n]
        out_n = transfer(g.nodes[n], st)
        outs[n] = out_n
        for b, lab in g.succ[n]:
            if edge_ok is not None and not edge_ok(n, b, lab):
                continue
            val = st if lab == 'e' and g.nodes[n].kind not in ('dispatch', 'finally', 'join') else out_n
            if edge_transfer is not None:
                val = edge_transfer(n, b, lab, val)
            if b not in ins:
                ins[b] = val
                work.append(b)
            else:
                j = join(ins[b], val)
                if j != ins[b]:
                    ins[b] = j
                    work.append(b)
    return ins, outs


# ------------------------------------------------------------------------------------------------------------------

def rule_add(ctx, fn=None, as_host=False):
    """fn: the function whose CFG carries the mutations (add itself, or - when add was split - the method it hands
    the validated trajectory to; that one is analysed on its own (as_host) and its call is a mutation of add)"""
    prog = ctx.prog
    m = prog.module(STORE)
    add = m.func('TrajectoryStore.add')
    if fn is None:
        fn = add
    eff = Effects(prog)
    g = CFG(fn.node)

    def normal(a, b, lab):
        return lab != 'e'

    # context managers of repository classes guarding a block: an exception that leaves the block runs __exit__
    cms = []
    for n in g.nodes:
        if n.kind != 'with':
            continue
        for k, it in enumerate(n.stmt.items):
            v_ = it.optional_vars.id if isinstance(it.optional_vars, ast.Name) else None
            made_at = None
            ce = it.context_expr
            if isinstance(ce, ast.Name) and isinstance(single_def_value(fn.node, ce.id), ast.Call):
                # `p = K(self); ...; with p:` - the object is made where the name is bound, entered here
                made = single_def_value(fn.node, ce.id)
                cm = context_manager_of(prog, fn, it, ce.id, call=made)
                made_at = next(iter(g.nodes_of(stmt_of(made))), None) if cm is not None else None
            else:
                cm = context_manager_of(prog, fn, it, f'_cm{int(n.line)}_{k}') or generator_manager_of(prog, fn, it, f'_cm{int(n.line)}_{k}')
            if cm is None:
                # an object the rule cannot open whose __exit__ writes into another object: it may well be the rollback
                try:
                    K_ = expr_class(prog, fn, ce)
                except Exception:
                    K_ = None
                ex_ = K_.find_method('__exit__') if K_ is not None else None
                if ex_ is not None and any(isinstance(x, ast.Attribute) and isinstance(x.value, ast.Attribute)
                                           and dotted_name(x.value.value) == 'self' and
                                           (isinstance(x.ctx, (ast.Store, ast.Del)) or x.attr in MUTATING_METHODS)
                                           for x in ast.walk(ex_.node)):
                    ctx.undecided('C10-R1', fn, f'with {norm(ce)[:60]}',
                                  f'{K_.name}.__exit__ writes into another object, but how the object was made is not followed: '
                                  'whether it rolls the block back is not decided')
                continue
            if cm.get('undecided'):
                ctx.undecided('C10-R1', fn, f'with {norm(it.context_expr)[:60]}', cm['undecided'])
            cm['made_at'] = made_at
            cm['head'] = n.id
            cm['body'] = {x.id for x in g.nodes if x.stmt is not None and x.stmt is not n.stmt
                          and any(a is n.stmt for a in ancestors(x.stmt))}
            cm['names'] = {cm['obj']} | ({v_} if v_ and cm['var_is'] == 'object' else set())
            cm['killed'] = set()
            cms.append(cm)
    cm_origin: dict[int, int] = {}     # id(expression held by a field of a context manager) -> node of the with head

    def cm_field(name, attr):
        """the expression of fn that field `attr` of the context-manager object `name` was given at the with head"""
        for cm in cms:
            if name in cm['names']:
                d = cm['fields'].get(attr)
                if d is not None:
                    cm_origin[id(d)] = cm['head'] if cm.get('made_at') is None or attr in cm.get('entered', ()) else cm['made_at']
                return d, True
        return None, False

    def cm_value(name):
        """the expression `with K(..) as name` binds when __enter__ returns a field of the object"""
        for cm in cms:
            if name == cm['var'] and cm['var_is'] not in (None, 'object'):
                cm_origin[id(cm['var_is'])] = cm['head']
                return cm['var_is']
        return None

    # bookkeeping helpers: methods of the class whose closure touches no file; their stores to self are add's own
    def bookkeeping(callee):
        if callee is None or callee.cls is None or callee.cls is not fn.cls and not fn.cls.is_subclass_of(callee.cls.name):
            return None
        if eff.fs_effects(callee):
            return None
        fns = [f for f in closure(prog, [callee]) if f.cls is callee.cls]
        if any(c for f in fns for c in calls_in(f.node)
               if call_name(c).split('.')[0] in ('nc4', 'netCDF4') or fs_effect_of_call(c)):
            return None
        return [(attr, how, None) for f in fns for attr, st, how in self_attr_stores(f)]

    # classify nodes
    rejections: dict[int, str] = {}
    call_nodes: dict[int, list] = {}
    for n in g.nodes:
        if n.stmt is None or n.kind in ('finally', 'dispatch', 'join', 'except'):
            continue
        if n.kind == 'stmt' and isinstance(n.stmt, ast.Raise):
            rejections[n.id] = 'raise'
            continue
        for e in _heads(n):
            for c in calls_in(e):
                callee = resolve_call(prog, fn, c)
                if callee is not None:
                    call_nodes.setdefault(n.id, []).append((c, callee))
                rs = eff.call_raises(fn, c)
                if rs:
                    rejections[n.id] = f'call {call_name(c)} (may reject: {len(rs)} explicit raise(s) in its closure)'

    muts: dict[int, list] = {}
    restores: dict[int, list] = {}
    helper_restores: dict[int, list] = {}
    for n in g.nodes:
        if n.kind != 'stmt' or n.stmt is None:
            continue
        ms = _self_mutations(n.stmt)
        via_helper = False
        if not ms and isinstance(n.stmt, (ast.Expr, ast.Assign, ast.Return)) and isinstance(n.stmt.value, ast.Call):
            callee = resolve_call(prog, fn, n.stmt.value)
            on_self = isinstance(n.stmt.value.func, ast.Attribute) and dotted_name(n.stmt.value.func.value) == 'self'
            hm = bookkeeping(callee) if on_self else None
            if hm:
                ms = [(a, 'helper-' + how, None) for a, how, _ in hm]
                via_helper = (n.stmt.value, callee)
            elif on_self and not as_host and callee is not None and callee.cls is fn.cls and callee != fn:
                # the function was split: a method that itself commits (and rolls back) the bookkeeping
                own = [x for st2 in walk_no_nested(callee.node) if isinstance(st2, ast.stmt) and not _catch_all_reraising_handler(st2)
                       for x in _self_mutations(st2) if x[0] not in NOT_CONTENT]
                if len(own) >= 3:
                    rule_add(ctx, fn=callee, as_host=True)
                    ms = [(a, 'split-' + how, None) for a, how, _ in own]
        if not ms:
            continue
        h = _catch_all_reraising_handler(n.stmt)
        if h is not None:
            restores[n.id] = ms
            if via_helper:
                helper_restores[n.id] = via_helper
        else:
            muts[n.id] = ms
    # add itself has four rejection points (write mode, schema, identifier use, the write path); when the work is split
    # over methods the checks may all sit behind one call
    was_split = any(how.startswith('split-') for ms in muts.values() for _, how, _ in ms)
    ctx.floor('C10-R1/rejections' + ('/host' if as_host else ''), len(rejections), 2 if as_host else 3 if was_split else 4,
              f'rejection points in {fn.name}')
    content_muts = {nid: [x for x in ms if x[0] not in NOT_CONTENT] for nid, ms in muts.items()}
    content_muts = {k: v for k, v in content_muts.items() if v}
    ctx.floor('C10-R1' + ('/host' if as_host else ''), sum(len(v) for v in content_muts.values()), 3,
              f'stores to logical state in {fn.name}')

    dom = g.dominators(edge_ok=normal)

    def component(v: ast.expr, depth=0):
        """the expression whose value the restored expression v holds: a single-definition local, one target of an
        unpacked display, element k of a saved display (`saved[k]`), field f of a saved record (`saved.f`, the record
        built once by a constructor call with that keyword or, for a resolved record class, at that position)"""
        from ..astutil import tuple_def_component
        if depth > 4:
            return None
        if isinstance(v, ast.Name) and cm_value(v.id) is not None:
            return cm_value(v.id)
        if isinstance(v, ast.Attribute) and isinstance(v.value, ast.Name) and cm_field(v.value.id, v.attr)[1]:
            return cm_field(v.value.id, v.attr)[0]
        if isinstance(v, ast.Name):
            d = single_def_value(fn.node, v.id)
            if d is None:
                tc = tuple_def_component(fn.node, v.id)
                if tc is not None:
                    src = tc[0] if isinstance(tc[0], (ast.Tuple, ast.List)) else component(tc[0], depth + 1)
                    if isinstance(src, (ast.Tuple, ast.List)) and tc[1] < len(src.elts) and \
                            not any(isinstance(e, ast.Starred) for e in src.elts):
                        d = src.elts[tc[1]]
            if isinstance(d, (ast.Name, ast.Subscript)) or (isinstance(d, ast.Attribute) and dotted_name(d.value) != 'self'):
                return component(d, depth + 1) or d
            return d
        if isinstance(v, ast.Subscript) and isinstance(v.value, ast.Name) and isinstance(v.slice, ast.Constant) \
                and isinstance(v.slice.value, int):
            src = single_def_value(fn.node, v.value.id)
            if isinstance(src, (ast.Tuple, ast.List)) and 0 <= v.slice.value < len(src.elts) and \
                    not any(isinstance(e, ast.Starred) for e in src.elts):
                return src.elts[v.slice.value]
            return None
        if isinstance(v, ast.Attribute) and isinstance(v.value, ast.Name) and v.value.id != 'self':
            src = single_def_value(fn.node, v.value.id)
            if isinstance(src, ast.Call) and not any(k.arg is None for k in src.keywords) and \
                    not any(isinstance(a, ast.Starred) for a in src.args):
                for k in src.keywords:
                    if k.arg == v.attr:
                        return k.value
                rc = prog.resolve_class_expr(fn.module, src.func)
                if rc is not None:
                    names = list(rc.annotated_fields())
                    if v.attr in names and names.index(v.attr) < len(src.args):
                        return src.args[names.index(v.attr)]
            return None
        return None

    def saved_copy_of(v, attr: str):
        """the saved value `self.attr` that expression v holds, when it was taken before every mutation of attr; else
        a reason"""
        name = norm(v) if not isinstance(v, str) else v
        d = component(ast.Name(id=v) if isinstance(v, str) else v)
        if d is None or not (isinstance(d, ast.Attribute) and d.attr == attr and dotted_name(d.value) == 'self'):
            return None, f'{name} is not a copy of self.{attr} saved before the store'
        dnode = [cm_origin[id(d)]] if id(d) in cm_origin else g.nodes_of(stmt_of(d))
        for mid, ms in content_muts.items():
            if any(a == attr for a, _, _ in ms):
                if not dnode or dnode[0] not in dom.get(mid, set()):
                    return None, f'saved copy {name} is not taken before the store at line {int(g.nodes[mid].line)}'
        return d, f'restored from {name} = self.{attr} saved before the store'

    # validate that a restore really restores the pre-state
    def restore_valid(nid, attr, how, key) -> tuple[bool, str]:
        st = g.nodes[nid].stmt
        if how.startswith('helper-'):
            c, callee = helper_restores[nid]
            # the helper stores a parameter into the attribute; the argument must be a saved copy
            for f in closure(prog, [callee]):
                for a2, st2, how2 in self_attr_stores(f):
                    if a2 != attr:
                        continue
                    v = getattr(st2, 'value', None)
                    # `self.attr = p` / `= p[k]` / `= p.field` with p a parameter: the argument, seen from the caller
                    base = v.value if isinstance(v, (ast.Attribute, ast.Subscript)) else v
                    if how2 == 'assign' and f is callee and isinstance(base, ast.Name) and base.id in callee.params:
                        idx = callee.params.index(base.id) - (1 if callee.params[:1] in (['self'], ['cls']) else 0)
                        arg = c.args[idx] if 0 <= idx < len(c.args) else next((k.value for k in c.keywords if k.arg == base.id), None)
                        if arg is not None and v is not base and isinstance(arg, ast.Name):
                            import copy
                            v2 = copy.deepcopy(v)
                            v2.value = ast.Name(id=arg.id, ctx=ast.Load())
                            arg = v2
                        elif v is not base:
                            arg = None
                        if arg is not None:
                            d, why = saved_copy_of(arg, attr)
                            return d is not None, why + f' (through {callee.qualname})'
                    if how2 in ('call-pop', 'elem-del', 'call-discard', 'call-remove'):
                        return True, f'inserted key removed again (through {callee.qualname})'
            return False, f'{callee.qualname} does not put a saved copy back into self.{attr}'
        if how.startswith('assign@') or how.startswith('elem-assign@'):
            # self.a, self.b = saved_a, saved_b   /   self.a, self.b = saved  (saved = (self.a, self.b))
            pos = int(how.split('@')[1])
            v = st.value
            if isinstance(v, ast.Name):
                d0 = single_def_value(fn.node, v.id)
                if isinstance(d0, (ast.Tuple, ast.List)) and pos < len(d0.elts):
                    el = d0.elts[pos]
                    if isinstance(el, ast.Attribute) and el.attr == attr and dotted_name(el.value) == 'self':
                        dnode = g.nodes_of(stmt_of(d0))
                        for mid, ms in content_muts.items():
                            if any(a == attr for a, _, _ in ms) and (not dnode or dnode[0] not in dom.get(mid, set())):
                                return False, f'saved copy {v.id} is not taken before the store at line {int(g.nodes[mid].line)}'
                        return True, f'restored from {v.id}[{pos}] = self.{attr} saved before the store'
                return False, f'{v.id}[{pos}] is not a copy of self.{attr} saved before the store'
            if isinstance(v, (ast.Tuple, ast.List)) and pos < len(v.elts):
                d, why = saved_copy_of(v.elts[pos], attr)
                return d is not None, why
            return False, f'value restored into self.{attr} is not a copy saved before the store'
        if how in ('assign',):
            d, why = saved_copy_of(st.value, attr)
            return d is not None, why
        if how in ('call-pop', 'elem-del', 'call-discard', 'call-remove'):
            ins_keys = {k for mid, ms in content_muts.items() for a, h2, k in ms
                        if a == attr and h2.startswith('elem-')}
            if key in ins_keys or not ins_keys or None in ins_keys:
                return True, f'inserted key {key} removed again'
            # the same value under another name
            kd = single_def_value(fn.node, key) if key and key.isidentifier() else None
            if any(single_def_value(fn.node, k) is not None and kd is not None and
                   norm(single_def_value(fn.node, k)) == norm(kd) for k in ins_keys if k and k.isidentifier()):
                return True, f'inserted key {key} removed again'
            return False, f'removes key {key}, but the insertion used {sorted(ins_keys)}'
        return False, f'unrecognised restore form {how}'

    valid_restores: dict[int, set] = {}
    for nid, ms in restores.items():
        for attr, how, key in ms:
            ok, why = restore_valid(nid, attr, how, key)
            if ok:
                valid_restores.setdefault(nid, set()).add(attr)
            ctx.ob('C10-R1', fn, f'restore of self.{attr} in handler: {norm(g.nodes[nid].stmt)}',
                   ok, why, line=g.nodes[nid].line)

    # what the __exit__ of a context manager puts back when an exception leaves the block it guards
    def canon_key(text):
        try:
            e_ = ast.parse(text, mode='eval').body
        except SyntaxError:
            return text
        return norm(component(e_) or e_)

    for cm in cms:
        what, ex = cm['what'], cm['exit']
        # a field the function itself stores into is not the value saved at the entry
        for x in walk_no_nested(fn.node):
            if isinstance(x, ast.Attribute) and isinstance(x.ctx, (ast.Store, ast.Del)) and isinstance(x.value, ast.Name) \
                    and x.value.id in cm['names']:
                cm['fields'][x.attr] = None
        if cm['enter_writes']:
            ctx.undecided('C10-R1', fn, f'with {what}',
                          f'entering the block already changes the store (`{norm(cm["enter_writes"][0])[:60]}` in the constructor / '
                          '__enter__): not followed')
        if not cm['actions']:
            continue      # a context manager that restores nothing (a lock, a timer): exceptions pass through it unchanged
        if cm['propagates'] is not True:
            ctx.undecided('C10-R1', ex, what, f'{cm["propagates"]} may swallow the exception that left the block: '
                          'whether the rejection still reaches the caller is not decided')
        if cm['delegated']:
            ctx.undecided('C10-R1', ex, what, f'the rollback is partly delegated to `{cm["delegated"][0]}`, which is not followed')
        for st2, st0, guard in cm['actions']:
            for attr, how, key in _self_mutations(st2):
                if guard is not None:
                    ctx.undecided('C10-R1', ex, f'{what}: {norm(st0)[:60]}',
                                  f'runs only under the condition {guard}, which is not "the block raised": whether every '
                                  'rejection is rolled back is not decided')
                if how == 'assign':
                    d, why = saved_copy_of(st2.value, attr)
                    ok = d is not None
                elif how.startswith('assign@') and isinstance(st2.value, (ast.Tuple, ast.List)) and \
                        int(how.split('@')[1]) < len(st2.value.elts):
                    d, why = saved_copy_of(st2.value.elts[int(how.split('@')[1])], attr)
                    ok = d is not None
                elif how in ('call-pop', 'elem-del', 'call-discard', 'call-remove'):
                    ins_keys = {k for mid, ms in content_muts.items() for a, h2, k in ms if a == attr and h2.startswith('elem-')}
                    ok = key in ins_keys or not ins_keys or None in ins_keys or \
                        (key is not None and canon_key(key) in {canon_key(k) for k in ins_keys})
                    why = f'inserted key {key} removed again' if ok else f'removes key {key}, but the insertion used {sorted(ins_keys)}'
                else:
                    ok, why = False, f'unrecognised restore form {how}'
                why = why.replace(cm['obj'] + '.', f'{ex.cls.name if cm["cls"] is not None else ex.name}.')
                if ok:
                    cm['killed'].add(attr)
                ctx.ob('C10-R1', ex, f'restore of self.{attr} in {what} when the block raised: {norm(st0)[:70]}',
                       ok, why + f' (the object is made at line {int(g.nodes[cm["head"]].line)} of {fn.name})', line=st0.lineno)

    def leaves_with(a, b, lab) -> set:
        """attributes put back by the context managers whose block the exceptional edge a -> b leaves"""
        out = set()
        if lab == 'e':
            for cm in cms:
                if a in cm['body'] and b not in cm['body']:
                    out |= cm['killed']
        return out

    def edge_transfer(a, b, lab, st):
        k = leaves_with(a, b, lab)
        return frozenset(x for x in st if x[0] not in k) if k else st

    def edge_ok(a, b, lab):
        if lab != 'e':
            return True
        na = g.nodes[a]
        return a in rejections or na.kind == 'dispatch' or 'exc' in na.fin

    def transfer(node, st):
        if node.id in valid_restores:
            st = frozenset(x for x in st if x[0] not in valid_restores[node.id])
        if node.id in content_muts:
            st = st | frozenset((a, node.id) for a, _, _ in content_muts[node.id])
        return st

    ins, _ = forward_edges(g, frozenset(), transfer, lambda a, b: a | b, edge_ok=edge_ok, edge_transfer=edge_transfer)
    dirty = ins.get(g.raise_exit, frozenset())
    for nid, ms in sorted(content_muts.items()):
        for attr, how, key in ms:
            bad = (attr, nid) in dirty
            path = []
            if bad:
                kill = {r for r, attrs in valid_restores.items() if attr in attrs}
                p = g.find_path(nid, g.raise_exit,
                                edge_ok=lambda a, b, lab: edge_ok(a, b, lab) and b not in kill
                                and attr not in leaves_with(a, b, lab))
                if p:
                    path = [f'L{int(g.nodes[x].line)}: {g.nodes[x].text()[:90]}' +
                            (f'   <-- rejection: {rejections[x]}' if x in rejections else '')
                            for x in p if g.nodes[x].stmt is not None or x == g.raise_exit]
            ctx.ob('C10-R1', fn, f'store to self.{attr} ({how}) survives no rejection', not bad,
                   ('every rejection reachable after this store passes a handler that restores it '
                    'and re-raises, or no rejection follows it') if not bad else
                   (f'self.{attr} is committed at line {int(g.nodes[nid].line)} and a rejection after it '
                    'leaves add() without restoring it: a rejected addition changes the store'),
                   line=g.nodes[nid].line, path=path)
    if as_host:
        return
    for attr, why in NOT_CONTENT.items():
        ctx.note(f'C10-R1: self.{attr} excluded from logical state — {why}')

    # ---- where rejections are decided: before the first mutation (early) or after it (late) ---------------------------
    mut_ids = set(content_muts)

    def after_mutation(nid) -> bool:
        return nid in mut_ids or any(g.reaches(mid, nid, edge_ok=normal) for mid in mut_ids)

    def before_every_mutation(nids) -> bool:
        """some node of nids is executed on every path to every mutation"""
        return all(any(t in dom.get(mid, set()) for t in nids) for mid in mut_ids) if mut_ids else True

    conds = {}

    def cond_of(fn):
        k = (fn.file, fn.qualname)
        if k not in conds:
            conds[k] = Conditions(fn, prog)
        return conds[k]

    early, late = [], []     # (function, raise stmt, reads, anchor nodes in add, call text)
    for n in g.nodes:
        if n.kind == 'stmt' and isinstance(n.stmt, ast.Raise) and not _catch_all_reraising_handler(n.stmt):
            rd = cond_of(add).reads(n.stmt)
            anchors = [t for a in ancestors(n.stmt) if isinstance(a, ast.stmt) for t in g.nodes_of(a)]
            (late if after_mutation(n.id) else early).append((add, n.stmt, rd, anchors, None))
    for nid, cs in call_nodes.items():
        is_late = after_mutation(nid)
        for c, callee in cs:
            for fn in closure(prog, [callee]):
                if not fn.file.endswith(STORE):
                    continue
                for r in walk_no_nested(fn.node):
                    if isinstance(r, ast.Raise) and r.exc is not None:
                        rd = cond_of(fn).reads(r)
                        (late if is_late else early).append((fn, r, rd, [nid], call_name(c)))

    # R1b: required-value rejection in the write path vs. pre-validation before the first mutation
    late_req = [x for x in late if _is_required_value_rejection(x[2])]
    early_req = [x for x in early if _is_required_value_rejection(x[2])]
    if late_req:
        fn, rn = late_req[0][0], late_req[0][1]
        pre = next((x for x in early_req if before_every_mutation(x[3])), None)
        ctx.ob('C10-R1b', add, 'required-value rejection is repeated before the first mutation',
               pre is not None,
               (f'pre-validation raise at line {pre[1].lineno} ({pre[0].qualname}) judges required/None before any store '
                f'(write-path rejection: {fn.qualname} line {rn.lineno})') if pre is not None else
               ((f'{fn.qualname} (line {rn.lineno}) rejects a missing required value only after '
                 'earlier fields of the record were already written to the file and the trajectory '
                 'dimension has grown; add() has no equivalent check before its first mutation, so '
                 'a reopen shows a half-written record') if fn is not add else
                (f'the missing-required-value rejection (line {rn.lineno}) is decided after add() has already changed the store '
                 f'(first change at line {min(g.nodes[k].line for k in mut_ids)}): it is no longer a check made before the '
                 'first mutation')),
               line=(pre[1].lineno if pre is not None else rn.lineno))
        if pre is not None:
            # the pre-validation must not walk state that is only populated later in this very call
            pfn, pr, prd, panchors, _ = pre
            reads = set(prd['self_attrs'])
            later = {}
            for nid, cs in call_nodes.items():
                if not any(g.reaches(a, nid, edge_ok=normal) for a in panchors) and not after_mutation(nid):
                    continue
                for c, callee in cs:
                    if callee.cls is add.cls and nid not in panchors:
                        for fn2 in closure(prog, [callee]):
                            if fn2.cls is add.cls:
                                for attr, st, how in self_attr_stores(fn2):
                                    later.setdefault(attr, fn2.qualname)
            for mid, ms in content_muts.items():
                for a_, _, _ in ms:
                    later.setdefault(a_, f'add itself (line {int(g.nodes[mid].line)})')
            # ... and it must judge every field: the loop that walks the fields is left early only with the verdict
            for f in [pfn] + [h for h in prd['opened'] if h is not pfn]:
                for L in walk_no_nested(f.node):
                    if not isinstance(L, (ast.For, ast.AsyncFor, ast.While)):
                        continue
                    if not ((f is pfn and any(a is L for a in ancestors(pr))) or
                            any(isinstance(a, ast.Attribute) and a.attr == 'required' for a in ast.walk(L))):
                        continue
                    for x in (y for b in L.body for y in [b] + list(walk_no_nested(b))):
                        if isinstance(x, ast.Break):
                            inner = next((a for a in ancestors(x) if isinstance(a, (ast.For, ast.AsyncFor, ast.While))), None)
                            if inner is not L:
                                continue
                        elif not isinstance(x, ast.Return):
                            continue
                        xr = cond_of(f).reads(x)
                        ok = _is_required_value_rejection(xr)
                        ctx.ob('C10-R1b', f, f'`{norm(x)[:40]}` inside the loop over the fields is the verdict on a missing value', ok,
                               'left early only when a required field has no value' if ok else
                               (f'the pre-validation loop (line {int(L.lineno)}) is left by `{norm(x)[:40]}` at line {int(x.lineno)} on a condition '
                                'that is not "required and missing": the fields after that one are never judged, so a trajectory '
                                'whose missing required value comes later passes the pre-check, is half-written by the write path '
                                'and the file keeps the record'), line=x.lineno)
            stale = sorted(reads & set(later))
            ctx.ob('C10-R1b', add, f'pre-validation reads {sorted(reads) or "only the argument"}', not stale,
                   'the check depends only on the trajectory being added (and state that exists before the call)'
                   if not stale else
                   (f'the pre-validation walks self.{stale[0]}, which is only populated by {later[stale[0]]} later in '
                    'the same call: for the first addition to a new store the check is empty, the record is '
                    'half-written and the files keep it'), line=pr.lineno)
    else:
        ctx.note('C10-R1b: no required-value rejection left in the write path')

    # R1c: documented rejections are decided before the first mutation
    checks = [
        ('write mode', lambda rd: bool(rd['self_attrs'] & {'_write_enabled', 'mode'}), {'_write_enabled', 'mode'}),
        ('same data fields (schema)', lambda rd: rd['hash_cmp'] or '_data_dictionary' in rd['attrs'] and '_trajectories' in rd['self_attrs'],
         {'_trajectories'}),
        ('identifier use consistent', lambda rd: 'indexable' in rd['self_attrs'] and ('flight_id' in rd['attrs'] or 'flight_id' in rd['consts']),
         {'indexable'}),
    ]
    # state that this very call populates: a rejection that is only made when such state is already there is not made
    # for the addition that finds it empty (the attribute the rejection is about excepted)
    later_all = {}
    for nid, cs in call_nodes.items():
        if after_mutation(nid):
            for c, callee in cs:
                if callee.cls is add.cls:
                    for fn2 in closure(prog, [callee]):
                        if fn2.cls is add.cls:
                            for attr, st, how in self_attr_stores(fn2):
                                later_all.setdefault(attr, fn2.qualname)
    for mid, ms in content_muts.items():
        for a_, _, _ in ms:
            later_all.setdefault(a_, f'add itself (line {int(g.nodes[mid].line)})')
    for what, pred, subject in checks:
        hits = [x for x in early if pred(x[2])]
        hit = hits[0] if hits else None
        ctx.ob('C10-R1c', add, f'rejection present: {what}', hit is not None,
               f'raise at line {hit[1].lineno} ({hit[0].qualname})' if hit is not None else
               f'add() no longer refuses before it changes the store: {what}', line=(hit[1].lineno if hit else add.node.lineno),
               nontrivial=False)
        for hfn, hr, hrd, _, _ in hits:
            extra = sorted((set(hrd['self_attrs']) & set(later_all)) - subject)
            if extra:
                ctx.ob('C10-R1c', add, f'rejection [{what}] is not conditional on self.{extra[0]}', False,
                       (f'the refusal at line {int(hr.lineno)} ({hfn.qualname}) is only made on a condition that reads self.{extra[0]}, '
                        f'which is populated by {later_all[extra[0]]} later in the same call: for an addition that finds it empty '
                        '(the first one of a new store, or of an append session on a re-opened file) this refusal is skipped, '
                        'the trajectory is inserted and written, and the store keeps it'), line=hr.lineno)
    ctx.stats['add_cfg_nodes'] = len(g.nodes)
    ctx.stats['add_rejection_points'] = {g.nodes[k].line: v for k, v in rejections.items()}
    ctx.stats['add_rejections_before_first_mutation'] = len(early)
    ctx.stats['add_rejections_after_first_mutation'] = len(late)


# ------------------------------------------------------------------------------------------------------------------

def _const_strings(prog, fn, e, depth=0) -> list[str]:
    """string constants an expression is built from: literals, module constants, single-definition locals, and what a
    property / an accessor method of a repository class (`layout.metadata_file`, `layout.path_of_metadata()`) returns"""
    out = []
    for x in ast.walk(e):
        if isinstance(x, ast.Constant) and isinstance(x.value, str):
            out.append(x.value)
        elif isinstance(x, ast.Attribute) and depth < 3 and not isinstance(x.value, ast.Constant):
            try:
                owner = expr_class(prog, fn, x.value)
            except Exception:
                owner = None
            if owner is None:
                owner = prog.resolve_class_expr(fn.module, x.value)     # `K.NAME`
            meth = owner.find_method(x.attr) if owner is not None else None
            if meth is not None and meth is not fn:
                for r in walk_no_nested(meth.node):
                    if isinstance(r, ast.Return) and r.value is not None:
                        out += _const_strings(prog, meth, r.value, depth + 1)
            elif owner is not None and meth is None:
                # a constant of the class body (`FILE_NAME = 'metadata.json'`, read as self. / cls. / K.FILE_NAME)
                for c_ in owner.mro():
                    v = c_.class_assignments().get(x.attr)
                    if v is not None:
                        ctxfn = next(iter(c_.methods.values()), None)
                        out += _const_strings(prog, ctxfn, v, depth + 1) if ctxfn is not None else \
                            [k.value for k in ast.walk(v) if isinstance(k, ast.Constant) and isinstance(k.value, str)]
                        break
        elif isinstance(x, ast.Name) and depth < 3:
            v = single_def_value(fn.node, x.id)
            if v is not None:
                out += _const_strings(prog, fn, v, depth + 1)
                continue
            r = prog.resolve_name(fn.module, x.id)
            if isinstance(r, tuple) and r[0] == 'const':
                out += _const_strings(prog, fn, r[1].constants[r[2]], depth + 1)
    return out


def getter_reads(prog, fn, e) -> list:
    """[(attribute node, getter)] for the reads `x.p` in e (nested functions excluded) where x is an object of a
    repository class and `p` a @property / cached_property of it: the read runs the getter, so whatever the getter
    does (refuse, touch a file) happens at the place of the read"""
    cache = prog.__dict__.setdefault('_c10_getter_cache', {})
    out = []
    for x in walk_no_nested(e):
        if not isinstance(x, ast.Attribute) or not isinstance(x.ctx, ast.Load):
            continue
        k = (fn.file, fn.qualname, id(x))
        if k not in cache:
            g = None
            try:
                owner = expr_class(prog, fn, x.value)
            except Exception:
                owner = None
            meth = owner.find_method(x.attr) if owner is not None else None
            if meth is not None and meth is not fn and any('property' in d for d in meth.decorators()):
                g = meth
            cache[k] = g
        if cache[k] is not None:
            out.append((x, cache[k]))
    return out


def closure_with_getters(prog, roots) -> list:
    """functions that run when the roots are called: resolved calls and the getters of the properties read"""
    seen: dict = {}
    st = list(roots)
    while st and len(seen) < 400:
        f = st.pop()
        if (f.file, f.qualname) in seen:
            continue
        for h in closure(prog, [f]):
            if (h.file, h.qualname) in seen:
                continue
            seen[(h.file, h.qualname)] = h
            st += [gt for _, gt in getter_reads(prog, h, h.node)]
    return list(seen.values())



DELETES = {'os.remove', 'os.unlink', 'shutil.rmtree', 'os.rmdir', 'os.removedirs'}
COPIES = {'shutil.copy', 'shutil.copy2', 'shutil.copyfile', 'shutil.move', 'shutil.copytree'}
DELETE_METHODS = {'unlink', 'rmdir'}


REFUSALS = ('ValueError', 'TypeError', 'RuntimeError', 'KeyError', 'FileExistsError', 'FileNotFoundError',
            'NotADirectoryError', 'IsADirectoryError')


def rule_merge(ctx):
    prog = ctx.prog
    m = prog.module(STORE)
    pkg = m.relpath.rsplit('/', 1)[0]

    def in_pkg(f) -> bool:
        """a function of the store's own package (store.py, or a module of the same directory it was moved to)"""
        return f.file.rsplit('/', 1)[0] == pkg
    merge = m.func('TrajectoryStore.merge')
    eff = Effects(prog)
    g = CFG(merge.node)

    def normal(a, b, lab):
        return lab != 'e'

    def is_meta_open(fn, c) -> bool:
        e = fs_effect_of_call(c)
        if e and e.startswith('open('):
            return any(s.endswith('.json') for s in _const_strings(prog, fn, c.args[0] if c.args else c))
        if e in ('.write_text', '.write_bytes') or (isinstance(c.func, ast.Attribute) and c.func.attr == 'open' and e):
            return any(s.endswith('.json') for s in _const_strings(prog, fn, c.func.value))
        return False

    def meta_in(fn) -> list:
        return [(f, c) for f in closure(prog, [fn]) for c in calls_in(f.node) if is_meta_open(f, c)]

    _memo: dict = {}

    def raises_of(callee) -> list:
        """explicit raises that can run when callee is called: its closure over resolved calls and, on the way, the
        getters of the properties it reads"""
        k = ('r', callee.file, callee.qualname)
        if k not in _memo:
            out = list(eff.explicit_raises(callee))
            have = {(h.file, h.qualname) for h in closure(prog, [callee])}
            for h in closure_with_getters(prog, [callee]):
                if (h.file, h.qualname) not in have:
                    out += [(h, r) for r in walk_no_nested(h.node) if isinstance(r, ast.Raise)]
            _memo[k] = out
        return _memo[k]

    def fs_of(callee) -> list:
        """file-system effects that can happen when callee is called (getters of the properties read included)"""
        k = ('f', callee.file, callee.qualname)
        if k not in _memo:
            out = [f'{h.qualname}:{e_}' for h, _, e_ in eff.fs_effects(callee)]
            have = {(h.file, h.qualname) for h in closure(prog, [callee])}
            for h in closure_with_getters(prog, [callee]):
                if (h.file, h.qualname) not in have:
                    out += [f'{h.qualname}:{e_}' for _, e_ in eff.direct_fs(h)]
            _memo[k] = out
        return _memo[k]

    def steps(fn, e) -> list:
        """[(node, callee or None, file-system effects)] for what evaluating e runs: the calls and the reads of
        properties of repository classes (a read runs the getter)"""
        out = []
        for c in calls_in(e):
            callee = resolve_call(prog, fn, c)
            effs = eff.call_fs(fn, c)
            if callee is not None:
                effs = effs + [x for x in fs_of(callee) if x not in effs]
            out.append((c, callee, effs))
        for a, gt in getter_reads(prog, fn, e):
            out.append((a, gt, fs_of(gt)))
        return out

    def step_name(c, callee) -> str:
        if isinstance(c, ast.Call):
            return f'{callee.name if callee is not None else call_name(c)}(…)'
        return f'the read of property `{norm(c)}`'

    def decided_before(fn, gx, fsx, nid, c, callee):
        """line of an earlier step of fn that already ran the getter `callee` for the same object, when the read `c` at
        node nid can only repeat that verdict: the earlier step (a read of the same property, or a method of the same
        class called on the same object whose closure reads it) is executed on every path to nid, before every
        file-system effect of fn, the object's name is bound once, and nothing that runs between the two stores to an
        attribute the getter reads.  None when the read at nid may be the first (or a different) verdict."""
        if isinstance(c, ast.Call) or not isinstance(c.value, ast.Name):
            return None
        recv = c.value.id
        if recv not in ('self', 'cls') and len(local_defs(fn.node, recv)) != (0 if recv in fn.params else 1):
            return None
        getters = [h for h in closure_with_getters(prog, [callee]) if h.cls is callee.cls]
        reads = {a.attr for h in getters for a in ast.walk(h.node)
                 if isinstance(a, ast.Attribute) and dotted_name(a.value) == 'self'}
        k = ('dom', id(gx))
        if k not in _memo:
            _memo[k] = gx.dominators(edge_ok=normal)
        for u in sorted(_memo[k].get(nid, set()) - {nid}):
            nu = gx.nodes[u]
            if nu.stmt is None or nu.kind in ('finally', 'dispatch', 'join', 'except'):
                continue
            if u in fsx or any(gx.reaches(f, u, edge_ok=normal) for f in fsx):
                continue
            same = False
            for e in _heads(nu):
                for c2, callee2, _ in steps(fn, e) if e is not None else []:
                    if callee2 is None:
                        continue
                    if isinstance(c2, ast.Attribute):
                        same |= callee2 == callee and norm(c2.value) == recv
                    elif isinstance(c2.func, ast.Attribute) and norm(c2.func.value) == recv and callee2.cls is callee.cls:
                        same |= any(h == callee for h in closure_with_getters(prog, [callee2]))
            if not same:
                continue
            written = set()
            for w in gx.nodes:
                if w.id in (u, nid) or w.stmt is None or w.kind in ('finally', 'dispatch', 'join', 'except'):
                    continue
                if not (gx.reaches(u, w.id, edge_ok=normal) and gx.reaches(w.id, nid, edge_ok=normal)):
                    continue
                for e in _heads(w):
                    if e is None:
                        continue
                    for x in walk_no_nested(e):
                        if isinstance(x, ast.Attribute) and isinstance(x.ctx, (ast.Store, ast.Del)) and norm(x.value) == recv:
                            written.add(x.attr)
                        elif isinstance(x, ast.Call) and isinstance(x.func, ast.Attribute) and x.func.attr in MUTATING_METHODS:
                            b = x.func.value
                            while isinstance(b, ast.Subscript):
                                b = b.value
                            if isinstance(b, ast.Attribute) and norm(b.value) == recv:
                                written.add(b.attr)
                    for c3, callee3, _ in steps(fn, e):
                        if callee3 is not None and callee3.cls is not None and \
                                (callee3.cls is callee.cls or callee.cls.is_subclass_of(callee3.cls.name)):
                            for h in closure_with_getters(prog, [callee3]):
                                if h.cls is callee3.cls or h.cls is callee.cls:
                                    written |= {a for a, _, _ in self_attr_stores(h)}
            if not (reads & written):
                return int(nu.line)
        return None

    fs_nodes: dict[int, list[str]] = {}
    validation: dict[int, str] = {}
    val_steps: dict[int, list] = {}
    meta_node = None
    meta_helper = None
    meta_handed = False
    validators = []
    for n in g.nodes:
        if n.stmt is None or n.kind in ('finally', 'dispatch', 'join', 'except'):
            continue
        s = n.stmt
        if n.kind == 'stmt' and isinstance(s, ast.Raise):
            if s.exc is None and any(isinstance(a, ast.ExceptHandler) for a in ancestors(s)):
                continue   # passing on a failure is not a refusal of the arguments
            validation[n.id] = 'raise ' + norm(s.exc)[:70] if s.exc else 'raise'
            continue
        for e in _heads(n):
            if e is None:
                continue
            for c, callee, effs in steps(merge, e):
                if effs:
                    fs_nodes.setdefault(n.id, []).extend(effs)
                    if isinstance(c, ast.Call) and is_meta_open(merge, c):
                        meta_node = n.id
                    elif callee is not None and meta_in(callee):
                        meta_node, meta_helper, meta_handed = n.id, callee, False
                    elif callee is not None and any('open(' in e_ or 'write_text' in e_ for e_ in effs) and \
                            any(s_.endswith('.json') for s_ in _const_strings(prog, merge, c)):
                        # the helper opens a path it is handed; the caller names the file
                        meta_node, meta_helper, meta_handed = n.id, callee, True
                elif callee is not None and callee.file.endswith(STORE) and raises_of(callee) \
                        and callee.name not in ('__init__', 'open', 'create', 'append'):
                    # a helper that only judges: a validation step (a property whose getter can refuse is one as well:
                    # the refusal is made where the property is first read)
                    if isinstance(c, ast.Call):
                        what = f'call {callee.qualname} ({len(raises_of(callee))} raises)'
                    else:
                        r0 = next((r for _, r in raises_of(callee) if r.exc is not None), None)
                        what = (f'read of property `{norm(c)}`, whose getter {callee.qualname} can refuse' +
                                (f' with `{norm(r0.exc)[:70]}`' if r0 is not None else ''))
                    validation[n.id] = (validation[n.id] + '; ' if n.id in validation else '') + what
                    val_steps.setdefault(n.id, []).append((c, callee))
                    validators.append(callee)
    # a property read again after it was read (and could refuse) before every effect only repeats that verdict
    for nid in sorted(val_steps):
        if not any(g.reaches(f, nid, edge_ok=normal) for f in fs_nodes):
            continue
        lines = [decided_before(merge, g, fs_nodes, nid, c, callee) for c, callee in val_steps[nid]]
        if all(ln is not None for ln in lines):
            ctx.ob('C10-R2', merge, f'validation [{validation[nid]}] repeats a verdict reached before every file-system effect', True,
                   f'the same getter already ran at line {lines[0]} for the same object, and nothing in between stores to what it reads',
                   line=g.nodes[nid].line)
            del validation[nid]
    n_rules = sum(1 for v in validation.values() if v.startswith('raise'))
    for chk in validators:
        n_rules += len(raises_of(chk))
    # refusals hidden in callees: an explicit raise in the closure of a call that a file-system effect can precede is a
    # refusal after the fact
    n_late = 0
    n_early = 0     # refusals that a builder merge hands the inputs to makes before its own first effect
    for n in g.nodes:
        if n.stmt is None or n.kind in ('finally', 'dispatch', 'join', 'except'):
            continue
        prior = [f for f in fs_nodes if f != n.id and g.reaches(f, n.id, edge_ok=normal)]
        if not prior or n.id in validation:
            continue
        for e in _heads(n):
            if e is None:
                continue
            for c, callee, _ in steps(merge, e):
                if callee is None or decided_before(merge, g, fs_nodes, n.id, c, callee) is not None:
                    continue
                for h, r in raises_of(callee):
                    if not in_pkg(h) or r.exc is None:
                        continue
                    exc = norm(r.exc)
                    if not exc.startswith(REFUSALS):
                        continue
                    n_late += 1
                    ctx.ob('C10-R2', merge, f'{step_name(c, callee)} can refuse with `{exc[:60]}` (in {h.name}, line {r.lineno})', False,
                           (f'this refusal can only be reached after {fs_nodes[prior[0]][0]} (line {int(g.nodes[prior[0]].line)}) has '
                            'already changed the file system: the merge is refused but the output directory and the moved input '
                            'files stay behind, and the corrected retry fails'), line=r.lineno)
    # ... and inside a callee that performs the first effects itself (a builder that merge hands the checked inputs
    # to): at every level, no refusal after an effect of that level
    def refusals_below(fn, seen):
        nonlocal n_late, n_early
        k = (fn.file, fn.qualname)
        if k in seen or len(seen) > 8:
            return
        seen.add(k)
        gx = CFG(fn.node)
        fsx = {}
        for n in gx.nodes:
            if n.stmt is None or n.kind in ('finally', 'dispatch', 'join', 'except'):
                continue
            for e in _heads(n):
                for c, _, effs in steps(fn, e) if e is not None else []:
                    if effs:
                        fsx.setdefault(n.id, []).extend(effs)
        for n in gx.nodes:
            if n.stmt is None or n.kind in ('finally', 'dispatch', 'join', 'except'):
                continue
            prior = [f for f in fsx if f != n.id and gx.reaches(f, n.id, edge_ok=normal)]
            if n.kind == 'stmt' and isinstance(n.stmt, ast.Raise):
                r = n.stmt
                if not prior and r.exc is not None:
                    n_early += 1
                if prior and r.exc is not None and norm(r.exc).startswith(REFUSALS) and \
                        not any(isinstance(a, ast.ExceptHandler) for a in ancestors(r)):
                    n_late += 1
                    ctx.ob('C10-R2', fn, f'{fn.name}(…) can refuse with `{norm(r.exc)[:60]}` (line {int(r.lineno)})', False,
                           (f'this refusal can only be reached after {fsx[prior[0]][0]} (line {int(gx.nodes[prior[0]].line)}) has '
                            'already changed the file system: the merge is refused but the output directory and the moved input '
                            'files stay behind, and the corrected retry fails'), line=r.lineno)
                continue
            for e in _heads(n):
                for c, callee, _ in steps(fn, e) if e is not None else []:
                    if callee is None:
                        continue
                    if not prior:
                        if n.id in fsx and fs_of(callee):
                            refusals_below(callee, seen)
                        elif n.id not in fsx and in_pkg(callee) and callee.name not in ('__init__', 'open', 'create', 'append'):
                            n_early += len(raises_of(callee))   # a refusal this level makes before its first effect
                        continue
                    if decided_before(fn, gx, fsx, n.id, c, callee) is not None:
                        continue
                    for h, r in raises_of(callee):
                        if not in_pkg(h) or r.exc is None or not norm(r.exc).startswith(REFUSALS):
                            continue
                        n_late += 1
                        ctx.ob('C10-R2', h, f'{step_name(c, callee)} can refuse with `{norm(r.exc)[:60]}` (in {h.name}, line {int(r.lineno)})',
                               False,
                               (f'this refusal can only be reached after {fsx[prior[0]][0]} (line {int(gx.nodes[prior[0]].line)}, in '
                                f'{fn.name}) has already changed the file system: the merge is refused but the output directory and '
                                'the moved input files stay behind, and the corrected retry fails'), line=r.lineno)

    for f in sorted(fs_nodes):
        if any(f2 != f and g.reaches(f2, f, edge_ok=normal) for f2 in fs_nodes):
            continue
        for e in _heads(g.nodes[f]):
            for c, callee, _ in steps(merge, e) if e is not None else []:
                if callee is not None and fs_of(callee):
                    refusals_below(callee, {(merge.file, merge.qualname)})
    ctx.ob('C10-R2', merge, f'{n_late} refusal(s) reachable only after a file-system effect', n_late == 0,
           'every explicit refusal of the merge is decided before the first effect' if n_late == 0 else 'see above', nontrivial=False)
    ctx.floor('C10-R2', n_rules + n_early + n_late, 8, 'merge validation rules')
    ctx.floor('C10-R2/fs', sum(len(set(v)) for v in fs_nodes.values()), 4, 'file-system effects in merge')

    for vid, vwhat in sorted(validation.items()):
        offenders = [f for f in fs_nodes if g.reaches(f, vid, edge_ok=normal)]
        ok = not offenders
        path = []
        if offenders:
            f = offenders[0]
            p = g.find_path(f, vid, edge_ok=normal) or []
            path = [f'L{int(g.nodes[x].line)}: {g.nodes[x].text()[:90]}' for x in p if g.nodes[x].stmt is not None]
        ctx.ob('C10-R2', merge, f'validation [{vwhat}] precedes every file-system effect', ok,
               'no file-system effect can run before this refusal' if ok else
               (f'file-system effect {fs_nodes[offenders[0]][0]} at line {int(g.nodes[offenders[0]].line)} '
                f'runs before this refusal (line {int(g.nodes[vid].line)}): a refused merge leaves '
                'something behind and the corrected retry fails'),
               line=g.nodes[vid].line, path=path)

    # R3 metadata last
    if meta_node is None:
        ctx.undecided('C10-R3', merge, 'metadata write',
                      'no write-mode open of a *.json file found in merge or in a helper it calls')
    for f, effs in sorted(fs_nodes.items()):
        if f == meta_node:
            continue
        after = g.reaches(meta_node, f, edge_ok=normal)
        before = g.reaches(f, meta_node, edge_ok=normal)
        ok = before and not after
        ctx.ob('C10-R3', merge, f'{effs[0]} happens before the metadata file is written', ok,
               'precedes the metadata write on every path and cannot follow it' if ok else
               ('this step can run after the metadata file announced the store complete'
                if after else 'this step does not lead to the metadata write'),
               line=g.nodes[f].line)
    # a step that failed must not be followed by the metadata write: no handler may swallow its failure and go on
    for f, effs in sorted(fs_nodes.items()):
        if f == meta_node:
            continue
        swallowed = [b for b, lab in g.succ[f] if lab == 'e' and (b == meta_node or g.reaches(b, meta_node))]
        if swallowed:
            ctx.ob('C10-R3', merge, f'a failure of {effs[0]} cannot be followed by the metadata write', False,
                   'an exception raised by this step is caught and the merge goes on to write the metadata file: the merged '
                   'directory announces itself as complete although this part is missing or half-written', line=g.nodes[f].line)
    # below merge: at every level of the call chain that leads to the metadata write (merge -> builder -> ... -> the
    # function that opens the file) the step that writes the metadata is the last file-system effect of that level;
    # in the function that opens the file the open is its last effect and the body only serialises
    def write_open(c) -> bool:
        return (fs_effect_of_call(c) or '').startswith(('open(', '.write_text', '.write_bytes'))

    def scan(fn, gx, handed):
        """file-system effects per CFG node of fn, and the nodes through which the metadata file is written:
        nid -> (call, callee or None when the open is here, the callee is handed the path)"""
        fs, metas = {}, {}
        for n in gx.nodes:
            if n.stmt is None or n.kind in ('finally', 'dispatch', 'join', 'except'):
                continue
            for e in _heads(n):
                for c in calls_in(e) if e is not None else []:
                    effs = eff.call_fs(fn, c)
                    if not effs:
                        continue
                    fs.setdefault(n.id, []).extend(effs)
                    callee = resolve_call(prog, fn, c)
                    if is_meta_open(fn, c) or (handed and write_open(c)):
                        metas[n.id] = (c, None, False)
                    elif callee is not None and meta_in(callee):
                        metas[n.id] = (c, callee, False)
                    elif callee is not None and any('open(' in e_ or 'write_text' in e_ or 'write_bytes' in e_ for e_ in effs) and \
                            (handed or any(s_.endswith('.json') for s_ in _const_strings(prog, fn, c))):
                        metas[n.id] = (c, callee, True)
        return fs, metas

    def serialises_only(fn, node):
        wstmt = node.stmt
        if isinstance(wstmt, ast.With):
            handles = {i.optional_vars.id for i in wstmt.items if isinstance(i.optional_vars, ast.Name)}
            inner = [c for s in wstmt.body for c in calls_in(s)]
            ok = all(call_name(c).split('.')[0] == 'json' or _is_log(c) or
                     (isinstance(c.func, ast.Attribute) and c.func.attr in ('write', 'flush') and isinstance(c.func.value, ast.Name)
                      and c.func.value.id in handles) for c in inner)
            ctx.ob('C10-R3', fn, f'metadata body only serialises: {[call_name(c) for c in inner]}', ok,
                   'only the dump inside the metadata write' if ok else
                   'other work happens while the metadata file is open', line=wstmt.lineno, nontrivial=False)

    def swallowed_in(fn, seen):
        """(function, line, effect) of a file-system step in the closure of fn whose failure a handler catches without
        passing it on: fn then returns normally although the step did not happen"""
        k = (fn.file, fn.qualname)
        if k in seen or len(seen) > 10:
            return None
        seen.add(k)
        gx = CFG(fn.node)
        for n in gx.nodes:
            if n.stmt is None or n.kind in ('finally', 'dispatch', 'join', 'except'):
                continue
            for e in _heads(n):
                for c in calls_in(e) if e is not None else []:
                    effs = eff.call_fs(fn, c)
                    if not effs:
                        continue
                    if any(lab == 'e' and (b == gx.exit or gx.reaches(b, gx.exit)) for b, lab in gx.succ[n.id]):
                        return fn, n.line, effs[0]
                    callee = resolve_call(prog, fn, c)
                    if callee is not None and eff.fs_effects(callee):
                        r = swallowed_in(callee, seen)
                        if r is not None:
                            return r
        return None

    def swallow_check(fn, gx, fs, metas):
        for f, effs in sorted(fs.items()):
            if f in metas or not any(gx.reaches(f, m_, edge_ok=normal) for m_ in metas):
                continue
            for e in _heads(gx.nodes[f]):
                for c in calls_in(e) if e is not None else []:
                    callee = resolve_call(prog, fn, c)
                    r = swallowed_in(callee, {(fn.file, fn.qualname)}) if callee is not None and eff.fs_effects(callee) else None
                    if r is not None:
                        ctx.ob('C10-R3', r[0], f'a failure of {r[2]} cannot be followed by the metadata write', False,
                               (f'an exception raised by this step is caught inside {r[0].name} (line {int(r[1])}) and not passed on: '
                                f'{fn.name} goes on to write the metadata file, and the merged directory announces itself as '
                                'complete although this part is missing or half-written'), line=r[1])

    def below(fn, handed, seen):
        k = (fn.file, fn.qualname)
        if k in seen or len(seen) > 6:
            return
        seen.add(k)
        gx = CFG(fn.node)
        fs, metas = scan(fn, gx, handed)
        if not metas:
            return
        for f, effs in sorted(fs.items()):
            if f in metas:
                continue
            after = any(gx.reaches(m_, f, edge_ok=normal) for m_ in metas)
            before = any(gx.reaches(f, m_, edge_ok=normal) for m_ in metas)
            ok = before and not after
            ctx.ob('C10-R3', fn, f'{effs[0]} happens before the metadata file is written', ok,
                   'precedes the metadata write on every path and cannot follow it' if ok else
                   ('this step can run after the metadata file announced the store complete'
                    if after else 'this step does not lead to the metadata write'), line=gx.nodes[f].line)
            swallowed = [b for b, lab in gx.succ[f] if lab == 'e' and any(b == m_ or gx.reaches(b, m_) for m_ in metas)]
            if swallowed:
                ctx.ob('C10-R3', fn, f'a failure of {effs[0]} cannot be followed by the metadata write', False,
                       'an exception raised by this step is caught and the merge goes on to write the metadata file: the merged '
                       'directory announces itself as complete although this part is missing or half-written', line=gx.nodes[f].line)
        swallow_check(fn, gx, fs, metas)
        for nid, (c, callee, h2) in sorted(metas.items()):
            if callee is None:
                serialises_only(fn, gx.nodes[nid])
            else:
                below(callee, h2, seen)

    swallow_check(merge, g, fs_nodes, {meta_node: None})
    if meta_helper is None:
        serialises_only(merge, g.nodes[meta_node])
    else:
        below(meta_helper, meta_handed, {(merge.file, merge.qualname)})

    # R4 relocation by rename only; nothing is deleted or copied once inputs have been moved
    renames = 0
    destructive = []
    for fn in closure(prog, [merge]):
        for c in calls_in(fn.node):
            cn = call_name(c)
            if cn in ('os.rename', 'os.replace') or (isinstance(c.func, ast.Attribute) and c.func.attr in ('rename', 'replace')
                                                    and (fn is merge or len(c.args) + len(c.keywords) == 1)   # Path.rename(target)
                                                    and not isinstance(c.func.value, ast.Constant)
                                                    and cn.split('.')[0] not in ('str', 're')):
                renames += 1
            kind = 'delete' if cn in DELETES or (isinstance(c.func, ast.Attribute) and c.func.attr in DELETE_METHODS) else \
                'copy' if cn in COPIES else None
            if kind:
                destructive.append((fn, c, kind))
    for fn, c, kind in destructive:
        cn = call_name(c)
        why = 'copy/delete is not atomic: an interruption can lose or duplicate an input'
        if kind == 'delete':
            # is it reachable (handlers included) after an input has been moved?  (decided in the function that deletes)
            gx = g if fn is merge else CFG(fn.node)
            fsx = fs_nodes if fn is merge else scan(fn, gx, False)[0]
            cnode = next((n.id for n in gx.nodes if n.stmt is not None and any(c is x for e in _heads(n) if e is not None for x in calls_in(e))), None)
            if cnode is None:   # inside a handler body statement
                st = stmt_of(c)
                cnode = next(iter(gx.nodes_of(st)), None)
            moved = [f for f, effs in fsx.items() if any('rename' in e or 'replace' in e for e in effs)]
            if cnode is not None and any(gx.reaches(f, cnode) for f in moved):
                why = (f'{cn}(…) can run after the inputs have been moved into the output directory (line '
                       f'{int(gx.nodes[moved[0]].line)}): it deletes the only copy of every input, so an interrupted merge loses all '
                       'trajectories and cannot be retried')
        ctx.ob('C10-R4', fn, f'relocation uses {cn}', False, why, line=c.lineno)
    ctx.floor('C10-R4', renames, 1, 'os.rename relocation sites')
    ctx.ob('C10-R4', merge, 'inputs relocated by atomic rename only', True,
           f'{renames} rename site(s), no copy/delete call in the merge closure', nontrivial=False)
    ctl = ast.parse('shutil.copy(a, b)').body[0].value
    ctx.control('C10-R4', call_name(ctl) in COPIES, 'embedded `shutil.copy(a, b)` is recognised')
    ctx.stats['merge_fs_sites'] = {g.nodes[k].line: v for k, v in fs_nodes.items()}


def _is_log(c) -> bool:
    return call_name(c).startswith(('logger.', 'logging.', 'log.', 'print'))


def rule_caches(ctx):
    """R5: `add` recognises a foreign schema by comparing hash(trajectory) with
    the store's prototype.  Any attribute of the container that lazily caches a
    value derived from the data dictionary (tested against None and filled in the
    same method from other attributes) must be reset wherever that source
    attribute is rebound, otherwise the schema check compares stale values and a
    trajectory with different field sets is accepted."""
    prog = ctx.prog
    n = 0
    classes = prog.subclasses_of('Container')
    # lazily filled attributes: None when the object is made, given a value later by some other method
    lazy = set()
    for cls in classes:
        ini = cls.methods.get('__init__')
        if ini is not None:
            for t, st, how in stores_to(ini.node):
                if isinstance(t, ast.Attribute) and dotted_name(t.value) == 'self' and how in ('assign', 'ann') \
                        and isinstance(getattr(st, 'value', None), ast.Constant) and st.value.value is None:
                    lazy.add(t.attr)
    for cls in classes:
        for meth in cls.methods.values():
            if meth.name == '__init__':
                continue
            for cache in sorted(lazy):
                fills = [st for t, st, how in stores_to(meth.node) if norm(t) == f'self.{cache}' and how in ('assign', 'ann')
                         and not (isinstance(st.value, ast.Constant) and st.value.value is None)]
                if not fills:
                    continue
                sources = set()
                for st in fills:
                    work = [st.value]
                    seen = set()
                    while work:
                        e = work.pop()
                        for a in ast.walk(e):
                            if isinstance(a, ast.Attribute) and dotted_name(a.value) == 'self' and a.attr != cache:
                                sources.add(a.attr)
                            elif isinstance(a, ast.Name) and a.id not in seen:
                                seen.add(a.id)
                                for d in local_defs(meth.node, a.id):
                                    v = getattr(d, 'value', None)
                                    if isinstance(v, ast.expr):
                                        work.append(v)
                for src in sorted(sources):
                    for c2 in classes:
                        for w in c2.methods.values():
                            if w.name == '__init__':
                                continue
                            writes = [st for t, st, how in stores_to(w.node) if norm(t) == f'self.{src}']
                            if not writes:
                                continue
                            n += 1
                            resets = [st for t, st, how in stores_to(w.node) if norm(t) == f'self.{cache}'
                                      and (how == 'del' or isinstance(getattr(st, 'value', None), ast.Constant) and st.value.value is None)]
                            ok = bool(resets)
                            ctx.ob('C10-R5', w, f'self.{src} rebound → cached self.{cache} invalidated', ok,
                                   f'`self.{cache} = None` in the same method' if ok else
                                   (f'{meth.qualname} caches a value derived from self.{src} in self.{cache}, but {w.qualname} '
                                    f'rebinds self.{src} without resetting the cache: the schema comparison in '
                                    'TrajectoryStore.add sees the stale value and accepts a trajectory whose field sets differ'),
                                   line=writes[0].lineno)
    ctx.floor('C10-R5', n, 1, 'cache/source writer pairs in Container')
    hs = prog.cls('storage/container.py', 'Container').methods.get('__hash__')
    if hs is not None:
        r = [x for x in walk_no_nested(hs.node) if isinstance(x, ast.Return)]
        ok = all('_data_dictionary' in norm(x.value) or norm(x.value).startswith('self._') for x in r) and bool(r)
        ctx.ob('C10-R5', hs, 'container hash is a function of its data dictionary', ok,
               ', '.join(norm(x.value) for x in r) if ok else 'hash no longer reflects the field definitions', nontrivial=False)


def rule_eviction(ctx):
    """R6: the cache's refusal to evict (an in-memory store has nowhere to reload an evicted trajectory from) is
    decided before anything is removed: in TrajectoryCache.popitem no `raise` is reachable from a statement that has
    already taken an item out of the cache."""
    m = ctx.prog.module(STORE)
    fi = m.func('TrajectoryCache.popitem')
    g = CFG(fi.node)
    removers = []
    raises = []
    for n in g.nodes:
        if n.stmt is None or n.kind in ('finally', 'dispatch', 'join', 'except'):
            continue
        if n.kind == 'stmt' and isinstance(n.stmt, ast.Raise):
            raises.append(n)
            continue
        for e in _heads(n):
            for c in calls_in(e) if e is not None else []:
                cn = call_name(c)
                if cn.split('.')[-1] in ('popitem', 'pop', 'clear', '__delitem__') or cn.startswith('super().'):
                    removers.append((n, cn))
        if n.kind == 'stmt' and isinstance(n.stmt, ast.Delete):
            removers.append((n, 'del'))
    ctx.floor('C10-R6', len(raises), 1, 'eviction refusals in TrajectoryCache.popitem')
    ctx.floor('C10-R6/remove', len(removers), 1, 'removals in TrajectoryCache.popitem')
    for r in raises:
        late = [(n, cn) for n, cn in removers if g.reaches(n.id, r.id, edge_ok=lambda a, b, lab: lab != 'e')]
        ok = not late
        ctx.ob('C10-R6', fi, f'`{norm(r.stmt)[:60]}` is decided before any removal', ok,
               'nothing has been taken out of the cache when the eviction is refused' if ok else
               (f'`{late[0][1]}(…)` (line {int(late[0][0].line)}) has already removed the least recently used trajectory when the '
                'eviction is refused: the add that overflowed an in-memory store is rejected, yet an earlier trajectory is gone '
                'and cannot be reloaded'), line=r.line)


def run(ctx):
    rule_caches(ctx)
    rule_eviction(ctx)
    rule_add(ctx)
    rule_merge(ctx)
    ctx.assumptions += [
        'os.rename is atomic within one file system; netCDF4/HDF5 crash behaviour is not modelled',
        'a rejection is an explicit `raise` in repository code; third-party I/O errors are crashes',
        'except Exception / BaseException handlers are treated as catching every rejection',
    ]
