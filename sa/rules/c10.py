"""C10 — rejected or interrupted store operations lose and corrupt nothing.

R1  validate-before-mutate in TrajectoryStore.add (T-ORDER + effects, decided
    by forward dataflow on the CFG with rejection edges): no store to the
    store's logical state may still be in effect when a *rejection* leaves the
    function.  Accepted idioms: the store comes after the last rejection, or
    the path runs through a catch-all handler that restores that attribute
    from a copy saved before the store (or pops the inserted key) and
    re-raises.
R1b the required-value rejection raised deep in the write path is reachable
    after earlier fields of the same record were already written to the file;
    so `add` must perform the same rejection before its first mutation.
R1c the three documented rejections exist in `add` (write mode, schema,
    identifier use).
R2  validate-before-mutate in merge: none of the validation `raise`s of merge
    / _check_merge_arguments is reachable after a file-system effect.
R3  metadata.json is written last: every other file-system effect precedes
    it and none follows it.
R4  inputs are relocated only by os.rename (zero-expected + positive control).
R6  the trajectory cache refuses an eviction before removing anything.
"""

from __future__ import annotations

import ast

from ..astutil import first_stmt, last_stmt  # noqa: F401
from ..astutil import stores_to  # noqa: F401
from ..astutil import (MUTATING_METHODS, ancestors, call_name, calls_in, guards_of,
                       names_in, norm, single_def_value, stmt_of, walk_no_nested)
from ..cfg import CFG
from ..effects import Effects, fs_effect_of_call
from ..loader import dotted_name
from ..resolve import closure, resolve_call

STORE = 'trajectories/store.py'

# attributes written in `add` that are *not* logical content, with the reason
NOT_CONTENT = {
    '_file_creation_pending': 'file linkage: once _create() has made the files they exist, '
                              'restoring True would make the next add fail with "already exists"',
}


def _self_mutations(stmt: ast.stmt):
    """[(attr, how, key_text)] for mutations of self.<attr> by a simple statement."""
    out = []
    tgts = []
    if isinstance(stmt, ast.Assign):
        tgts = [(t, 'assign') for t in stmt.targets]
    elif isinstance(stmt, ast.AugAssign):
        tgts = [(stmt.target, 'aug')]
    elif isinstance(stmt, ast.AnnAssign) and stmt.value is not None:
        tgts = [(stmt.target, 'assign')]
    elif isinstance(stmt, ast.Delete):
        tgts = [(t, 'del') for t in stmt.targets]
    for t, how in tgts:
        elts = t.elts if isinstance(t, (ast.Tuple, ast.List)) else [t]
        for e in elts:
            key = None
            b = e
            if isinstance(b, ast.Subscript):
                key = norm(b.slice)
                b = b.value
                how2 = 'elem-' + how
            else:
                how2 = how
            if isinstance(b, ast.Attribute) and dotted_name(b.value) == 'self':
                out.append((b.attr, how2, key))
    if isinstance(stmt, ast.Expr) and isinstance(stmt.value, ast.Call):
        c = stmt.value
        if isinstance(c.func, ast.Attribute) and c.func.attr in MUTATING_METHODS:
            b = c.func.value
            if isinstance(b, ast.Attribute) and dotted_name(b.value) == 'self':
                key = norm(c.args[0]) if c.args else None
                out.append((b.attr, 'call-' + c.func.attr, key))
    return out


def _catch_all_reraising_handler(stmt: ast.AST):
    for a in ancestors(stmt):
        if isinstance(a, (ast.FunctionDef, ast.AsyncFunctionDef)):
            return None
        if isinstance(a, ast.ExceptHandler):
            catch_all = a.type is None or any(
                norm(t).split('.')[-1] in ('BaseException', 'Exception')
                for t in (a.type.elts if isinstance(a.type, ast.Tuple) else [a.type]))
            last = last_stmt(a.body)
            reraises = isinstance(last, ast.Raise) and (
                last.exc is None or (a.name and isinstance(last.exc, ast.Name) and last.exc.id == a.name))
            if catch_all and reraises:
                return a
            return None
    return None


def rule_add(ctx):
    prog = ctx.prog
    m = prog.module(STORE)
    add = m.func('TrajectoryStore.add')
    eff = Effects(prog)
    g = CFG(add.node)

    # classify nodes
    rejections: dict[int, str] = {}
    for n in g.nodes:
        if n.stmt is None or n.kind in ('finally', 'dispatch', 'join', 'except'):
            continue
        if n.kind == 'stmt' and isinstance(n.stmt, ast.Raise):
            rejections[n.id] = 'raise'
            continue
        exprs = []
        s = n.stmt
        if n.kind == 'stmt':
            exprs = [s]
        elif n.kind == 'test':
            exprs = [s.test]
        elif n.kind == 'iter':
            exprs = [s.iter]
        elif n.kind == 'with':
            exprs = [i.context_expr for i in s.items]
        elif n.kind == 'match':
            exprs = [s.subject]
        for e in exprs:
            for c in calls_in(e):
                rs = eff.call_raises(add, c)
                if rs:
                    rejections[n.id] = f'call {call_name(c)} (may reject: {len(rs)} explicit raise(s) in its closure)'
    ctx.floor('C10-R1/rejections', len(rejections), 4, 'rejection points in add')

    muts: dict[int, list] = {}
    restores: dict[int, list] = {}
    for n in g.nodes:
        if n.kind != 'stmt' or n.stmt is None:
            continue
        ms = _self_mutations(n.stmt)
        if not ms:
            continue
        h = _catch_all_reraising_handler(n.stmt)
        if h is not None:
            restores[n.id] = ms
        else:
            muts[n.id] = ms
    content_muts = {nid: [x for x in ms if x[0] not in NOT_CONTENT] for nid, ms in muts.items()}
    content_muts = {k: v for k, v in content_muts.items() if v}
    ctx.floor('C10-R1', sum(len(v) for v in content_muts.values()), 3,
              'stores to logical state in add')

    # validate that a restore really restores the pre-state
    def restore_valid(nid, attr, how, key) -> tuple[bool, str]:
        st = g.nodes[nid].stmt
        if how in ('assign',):
            v = st.value
            if isinstance(v, ast.Name):
                d = single_def_value(add.node, v.id)
                if d is not None and isinstance(d, ast.Attribute) and d.attr == attr \
                        and dotted_name(d.value) == 'self':
                    # saved copy must be taken before every mutation of attr
                    dnode = g.nodes_of(stmt_of(d))
                    dom = g.dominators(edge_ok=lambda a, b, lab: lab != 'e')
                    for mid, ms in content_muts.items():
                        if any(a == attr for a, _, _ in ms):
                            if not dnode or dnode[0] not in dom.get(mid, set()):
                                return False, f'saved copy {v.id} is not taken before the store at line {g.nodes[mid].line}'
                    return True, f'restored from {v.id} = self.{attr} saved before the store'
            return False, f'value restored into self.{attr} is not a copy saved before the store'
        if how in ('call-pop', 'elem-del', 'call-discard', 'call-remove'):
            ins_keys = {k for mid, ms in content_muts.items() for a, h2, k in ms
                        if a == attr and h2.startswith('elem-')}
            if key in ins_keys or not ins_keys:
                return True, f'inserted key {key} removed again'
            return False, f'removes key {key}, but the insertion used {sorted(ins_keys)}'
        return False, f'unrecognised restore form {how}'

    valid_restores: dict[int, set] = {}
    for nid, ms in restores.items():
        for attr, how, key in ms:
            ok, why = restore_valid(nid, attr, how, key)
            if ok:
                valid_restores.setdefault(nid, set()).add(attr)
            ctx.ob('C10-R1', add, f'restore of self.{attr} in handler: {norm(g.nodes[nid].stmt)}',
                   ok, why, line=g.nodes[nid].line)

    def edge_ok(a, b, lab):
        if lab != 'e':
            return True
        na = g.nodes[a]
        return a in rejections or na.kind == 'dispatch' or 'exc' in na.fin

    def transfer(node, st):
        if node.id in valid_restores:
            st = frozenset(x for x in st if x[0] not in valid_restores[node.id])
        if node.id in content_muts:
            st = st | frozenset((a, node.id) for a, _, _ in content_muts[node.id])
        return st

    ins, _ = g.forward(frozenset(), transfer, lambda a, b: a | b, edge_ok=edge_ok)
    dirty = ins.get(g.raise_exit, frozenset())
    for nid, ms in sorted(content_muts.items()):
        for attr, how, key in ms:
            bad = (attr, nid) in dirty
            path = []
            if bad:
                kill = {r for r, attrs in valid_restores.items() if attr in attrs}
                p = g.find_path(nid, g.raise_exit,
                                edge_ok=lambda a, b, lab: edge_ok(a, b, lab) and b not in kill)
                if p:
                    path = [f'L{g.nodes[x].line}: {g.nodes[x].text()[:90]}' +
                            (f'   <-- rejection: {rejections[x]}' if x in rejections else '')
                            for x in p if g.nodes[x].stmt is not None or x == g.raise_exit]
            ctx.ob('C10-R1', add, f'store to self.{attr} ({how}) survives no rejection', not bad,
                   ('every rejection reachable after this store passes a handler that restores it '
                    'and re-raises, or no rejection follows it') if not bad else
                   (f'self.{attr} is committed at line {g.nodes[nid].line} and a rejection after it '
                    'leaves add() without restoring it: a rejected addition changes the store'),
                   line=g.nodes[nid].line, path=path)
    for attr, why in NOT_CONTENT.items():
        ctx.note(f'C10-R1: self.{attr} excluded from logical state — {why}')

    # R1b: required-value rejection in the write path vs. pre-validation in add
    write_raises = []
    for fn in closure(prog, [m.func('TrajectoryStore._write_trajectory')]):
        for n in walk_no_nested(fn.node):
            if isinstance(n, ast.Raise):
                gs = guards_of(n)
                txt = ' '.join(norm(x) for x, _, _ in gs)
                if 'required' in txt:
                    write_raises.append((fn, n, txt))
    if write_raises:
        # file writes in the same closure (element stores on netCDF variables)
        pre = None
        first_mut_line = min((g.nodes[k].line for k in content_muts), default=None)
        dom = g.dominators(edge_ok=lambda a, b, lab: lab != 'e')
        first_mut = min(content_muts, key=lambda k: g.nodes[k].line) if content_muts else None
        for n in g.nodes:
            if n.kind == 'stmt' and isinstance(n.stmt, ast.Raise):
                gs = guards_of(n.stmt)
                txt = ' '.join(norm(x) for x, _, _ in gs)
                if 'required' in txt and 'None' in txt:
                    # the guard test must dominate the first mutation (it is evaluated first)
                    # (the check may sit in a loop over the fields: the loop head
                    # is what is evaluated on every path)
                    test_nodes = [t for a in ancestors(n.stmt) if isinstance(a, ast.stmt)
                                  for t in g.nodes_of(a)]
                    if first_mut is None or any(t in dom.get(first_mut, set()) for t in test_nodes):
                        pre = n
        fn, rn, txt = write_raises[0]
        ctx.ob('C10-R1b', add, 'required-value rejection is repeated before the first mutation',
               pre is not None,
               (f'pre-validation raise at line {pre.line} guards on required/None before any store '
                f'(write-path rejection: {fn.qualname} line {rn.lineno})') if pre is not None else
               (f'{fn.qualname} (line {rn.lineno}) rejects a missing required value only after '
                'earlier fields of the record were already written to the file and the trajectory '
                'dimension has grown; add() has no equivalent check before its first mutation, so '
                'a reopen shows a half-written record'),
               line=(pre.line if pre is not None else rn.lineno))
        if pre is not None:
            # the pre-validation must not walk state that is only populated later in this very call
            from ..resolve import self_attr_stores
            reads = set()
            for a in ancestors(pre.stmt):
                if isinstance(a, ast.For):
                    reads |= {x.attr for x in ast.walk(a.iter) if isinstance(x, ast.Attribute) and norm(x.value) == 'self'}
            for t, pol, _ in guards_of(pre.stmt):
                reads |= {x.attr for x in ast.walk(t) if isinstance(x, ast.Attribute) and norm(x.value) == 'self'}
            later = {}
            for c in calls_in(add.node):
                if c.lineno > pre.line:
                    callee = resolve_call(prog, add, c)
                    if callee is not None and callee.cls is add.cls:
                        for fn2 in closure(prog, [callee]):
                            if fn2.cls is add.cls:
                                for attr, st, how in self_attr_stores(fn2):
                                    later.setdefault(attr, fn2.qualname)
            stale = sorted(reads & set(later))
            ctx.ob('C10-R1b', add, f'pre-validation reads {sorted(reads) or "only the argument"}', not stale,
                   'the check depends only on the trajectory being added (and state that exists before the call)'
                   if not stale else
                   (f'the pre-validation walks self.{stale[0]}, which is only populated by {later[stale[0]]} later in '
                    'the same call: for the first addition to a new store the check is empty, the record is '
                    'half-written and the files keep it'), line=pre.line)
    else:
        ctx.note('C10-R1b: no required-value rejection left in the write path')

    # R1c: documented rejections exist
    def has_raise_guarded(pred, what):
        for n in g.nodes:
            if n.kind == 'stmt' and isinstance(n.stmt, ast.Raise):
                gs = guards_of(n.stmt)
                if any(pred(x) for x, _, _ in gs):
                    return n
        return None

    checks = [
        ('write mode', lambda e: '_write_enabled' in norm(e)),
        ('same data fields (schema)', lambda e: 'hash(' in norm(e)),
        ('identifier use consistent', lambda e: 'indexable' in norm(e) and 'has_flight_id' in norm(e)),
    ]
    for what, pred in checks:
        n = has_raise_guarded(pred, what)
        ctx.ob('C10-R1c', add, f'rejection present: {what}', n is not None,
               f'raise at line {n.line}' if n is not None else
               f'add() no longer refuses: {what}', line=(n.line if n else add.node.lineno),
               nontrivial=False)
    ctx.stats['add_cfg_nodes'] = len(g.nodes)
    ctx.stats['add_rejection_points'] = {g.nodes[k].line: v for k, v in rejections.items()}


def rule_merge(ctx):
    prog = ctx.prog
    m = prog.module(STORE)
    merge = m.func('TrajectoryStore.merge')
    eff = Effects(prog)
    g = CFG(merge.node)

    fs_nodes: dict[int, list[str]] = {}
    validation: dict[int, str] = {}
    meta_node = None
    for n in g.nodes:
        if n.stmt is None or n.kind in ('finally', 'dispatch', 'join', 'except'):
            continue
        s = n.stmt
        exprs = {'stmt': [s], 'test': [getattr(s, 'test', None)], 'iter': [getattr(s, 'iter', None)],
                 'with': [i.context_expr for i in getattr(s, 'items', [])],
                 'match': [getattr(s, 'subject', None)]}.get(n.kind, [])
        if n.kind == 'stmt' and isinstance(s, ast.Raise):
            validation[n.id] = 'raise ' + norm(s.exc)[:70] if s.exc else 'raise'
            continue
        for e in exprs:
            if e is None:
                continue
            for c in calls_in(e):
                effs = eff.call_fs(merge, c)
                if effs:
                    fs_nodes.setdefault(n.id, []).extend(effs)
                    if any('metadata.json' in norm(a) for a in ast.walk(c) if isinstance(a, ast.Constant)):
                        meta_node = n.id
                callee = resolve_call(prog, merge, c)
                if callee is not None and callee.qualname.endswith('_check_merge_arguments'):
                    validation[n.id] = f'call {callee.qualname} ({len(eff.explicit_raises(callee))} raises)'
    n_rules = sum(1 for v in validation.values() if v.startswith('raise'))
    chk = m.func('TrajectoryStore._check_merge_arguments')
    n_rules += len(eff.explicit_raises(chk))
    # refusals hidden in callees: an explicit raise (other than in the argument check) in the closure of a call that a
    # file-system effect can precede is a refusal after the fact
    n_late = 0
    for n in g.nodes:
        if n.stmt is None or n.kind in ('finally', 'dispatch', 'join', 'except'):
            continue
        prior = [f for f in fs_nodes if f != n.id and g.reaches(f, n.id, edge_ok=lambda a, b, lab: lab != 'e')]
        if not prior:
            continue
        heads_ = [n.stmt] if n.kind == 'stmt' else [getattr(n.stmt, 'test', None), getattr(n.stmt, 'iter', None)]
        for e in heads_:
            if e is None:
                continue
            for c in calls_in(e):
                callee = resolve_call(prog, merge, c)
                if callee is None or callee.qualname.endswith('_check_merge_arguments'):
                    continue
                for h, r in eff.explicit_raises(callee):
                    if not h.file.endswith(STORE) or r.exc is None:
                        continue
                    exc = norm(r.exc)
                    if not exc.startswith(('ValueError', 'TypeError', 'RuntimeError', 'KeyError')):
                        continue
                    # only refusals that judge the *inputs* of the merge (reachable without any prior effect of the callee
                    # itself failing): report each once
                    n_late += 1
                    ctx.ob('C10-R2', merge, f'{callee.name}(…) can refuse with `{exc[:60]}` (in {h.name}, line {r.lineno})', False,
                           (f'this refusal can only be reached after {fs_nodes[prior[0]][0]} (line {g.nodes[prior[0]].line}) has '
                            'already changed the file system: the merge is refused but the output directory and the moved input '
                            'files stay behind, and the corrected retry fails'), line=r.lineno)
    ctx.ob('C10-R2', merge, f'{n_late} refusal(s) reachable only after a file-system effect', n_late == 0,
           'every explicit refusal of the merge is decided before the first effect' if n_late == 0 else 'see above', nontrivial=False)
    ctx.floor('C10-R2', n_rules, 8, 'merge validation rules')
    ctx.floor('C10-R2/fs', len(fs_nodes), 4, 'file-system effect sites in merge')

    for vid, vwhat in sorted(validation.items()):
        offenders = [f for f in fs_nodes if g.reaches(f, vid, edge_ok=lambda a, b, lab: lab != 'e')]
        ok = not offenders
        path = []
        if offenders:
            f = offenders[0]
            p = g.find_path(f, vid, edge_ok=lambda a, b, lab: lab != 'e') or []
            path = [f'L{g.nodes[x].line}: {g.nodes[x].text()[:90]}' for x in p if g.nodes[x].stmt is not None]
        ctx.ob('C10-R2', merge, f'validation [{vwhat}] precedes every file-system effect', ok,
               'no file-system effect can run before this refusal' if ok else
               (f'file-system effect {fs_nodes[offenders[0]][0]} at line {g.nodes[offenders[0]].line} '
                f'runs before this refusal (line {g.nodes[vid].line}): a refused merge leaves '
                'something behind and the corrected retry fails'),
               line=g.nodes[vid].line, path=path)

    # the callee's own raises must not follow an fs effect inside the callee either
    gc = CFG(chk.node)
    for n in gc.nodes:
        if n.stmt is not None and n.kind == 'stmt':
            for c in calls_in(n.stmt):
                if fs_effect_of_call(c):
                    ctx.ob('C10-R2', chk, f'no file-system effect in validation: {call_name(c)}', False,
                           'the argument check itself touches the file system', line=n.line)

    # R3 metadata last
    if meta_node is None:
        ctx.undecided('C10-R3', merge, 'metadata.json write',
                      'no write-mode open of metadata.json found in merge')
    for f, effs in sorted(fs_nodes.items()):
        if f == meta_node:
            continue
        after = g.reaches(meta_node, f, edge_ok=lambda a, b, lab: lab != 'e')
        before = g.reaches(f, meta_node, edge_ok=lambda a, b, lab: lab != 'e')
        ok = before and not after
        ctx.ob('C10-R3', merge, f'{effs[0]} happens before metadata.json is written', ok,
               'precedes the metadata write on every path and cannot follow it' if ok else
               ('this step can run after metadata.json announced the store complete'
                if after else 'this step does not lead to the metadata write'),
               line=g.nodes[f].line)
    # everything inside the `with open(metadata)` body is only the dump
    wstmt = g.nodes[meta_node].stmt
    if isinstance(wstmt, ast.With):
        inner_calls = [call_name(c) for s in wstmt.body for c in calls_in(s)]
        ok = all(c in ('json.dump', 'f.write', 'json.dumps') for c in inner_calls)
        ctx.ob('C10-R3', merge, f'metadata body only serialises: {inner_calls}', ok,
               'only json.dump inside the metadata write' if ok else
               'other work happens while metadata.json is open', line=wstmt.lineno, nontrivial=False)

    # R4 relocation by rename only
    banned = {'shutil.copy', 'shutil.copy2', 'shutil.copyfile', 'shutil.move', 'os.remove',
              'os.unlink', 'shutil.copytree', 'shutil.rmtree'}
    renames = 0
    for fn in closure(prog, [merge]):
        if fn.qualname in ('TrajectoryStore.__init__',):
            pass
        for c in calls_in(fn.node):
            cn = call_name(c)
            if cn in ('os.rename', 'os.replace'):
                renames += 1
            if cn in banned or (isinstance(c.func, ast.Attribute) and c.func.attr in ('unlink',)):
                ctx.ob('C10-R4', fn, f'relocation uses {cn}', False,
                       'copy/delete is not atomic: an interruption can lose or duplicate an input',
                       line=c.lineno)
    ctx.floor('C10-R4', renames, 1, 'os.rename relocation sites')
    ctx.ob('C10-R4', merge, 'inputs relocated by atomic rename only', True,
           f'{renames} rename site(s), no copy/delete call in the merge closure', nontrivial=False)
    ctl = ast.parse('shutil.copy(a, b)').body[0].value
    ctx.control('C10-R4', call_name(ctl) in banned, 'embedded `shutil.copy(a, b)` is recognised')
    ctx.stats['merge_fs_sites'] = {g.nodes[k].line: v for k, v in fs_nodes.items()}


def rule_caches(ctx):
    """R5: `add` recognises a foreign schema by comparing hash(trajectory) with
    the store's prototype.  Any attribute of the container that lazily caches a
    value derived from the data dictionary (`if self.X is None: self.X = f(self.F…)`)
    must be reset wherever that source attribute is rebound, otherwise the schema
    check compares stale values and a trajectory with different field sets is
    accepted."""
    prog = ctx.prog
    n = 0
    for cls in prog.subclasses_of('Container'):
        for meth in cls.methods.values():
            for x in walk_no_nested(meth.node):
                if isinstance(x, ast.If) and isinstance(x.test, ast.Compare) and isinstance(x.test.ops[0], ast.Is) \
                        and norm(x.test.comparators[0]) == 'None' and isinstance(x.test.left, ast.Attribute) \
                        and norm(x.test.left.value) == 'self':
                    cache = x.test.left.attr
                    fills = [s_ for s_ in x.body if isinstance(s_, ast.Assign) and norm(s_.targets[0]) == f'self.{cache}']
                    if not fills:
                        continue
                    sources = {a.attr for a in ast.walk(fills[0].value) if isinstance(a, ast.Attribute) and norm(a.value) == 'self'} - {cache}
                    for src in sorted(sources):
                        for c2 in prog.subclasses_of('Container'):
                            for w in c2.methods.values():
                                if w.name == '__init__':
                                    continue
                                writes = [st for t, st, how in stores_to(w.node) if norm(t) == f'self.{src}']
                                if not writes:
                                    continue
                                n += 1
                                resets = [st for t, st, how in stores_to(w.node) if norm(t) == f'self.{cache}'
                                          and isinstance(getattr(st, 'value', None), ast.Constant) and st.value.value is None]
                                ok = bool(resets)
                                ctx.ob('C10-R5', w, f'self.{src} rebound → cached self.{cache} invalidated', ok,
                                       f'`self.{cache} = None` in the same method' if ok else
                                       (f'{meth.qualname} caches a value derived from self.{src} in self.{cache}, but {w.qualname} '
                                        f'rebinds self.{src} without resetting the cache: the schema comparison in '
                                        'TrajectoryStore.add sees the stale value and accepts a trajectory whose field sets differ'),
                                       line=writes[0].lineno)
    ctx.floor('C10-R5', n, 1, 'cache/source writer pairs in Container')
    hs = prog.cls('storage/container.py', 'Container').methods.get('__hash__')
    if hs is not None:
        r = [x for x in walk_no_nested(hs.node) if isinstance(x, ast.Return)]
        ok = all('_data_dictionary' in norm(x.value) or norm(x.value).startswith('self._') for x in r) and bool(r)
        ctx.ob('C10-R5', hs, 'container hash is a function of its data dictionary', ok,
               ', '.join(norm(x.value) for x in r) if ok else 'hash no longer reflects the field definitions', nontrivial=False)


def rule_eviction(ctx):
    """R6: the cache's refusal to evict (an in-memory store has nowhere to reload an evicted trajectory from) is
    decided before anything is removed: in TrajectoryCache.popitem no `raise` is reachable from a statement that has
    already taken an item out of the cache."""
    m = ctx.prog.module(STORE)
    fi = m.func('TrajectoryCache.popitem')
    g = CFG(fi.node)
    removers = []
    raises = []
    for n in g.nodes:
        if n.stmt is None or n.kind != 'stmt':
            continue
        if isinstance(n.stmt, ast.Raise):
            raises.append(n)
            continue
        for c in calls_in(n.stmt):
            cn = call_name(c)
            if cn.split('.')[-1] in ('popitem', 'pop', 'clear', '__delitem__') or cn.startswith('super().'):
                removers.append((n, cn))
        if isinstance(n.stmt, ast.Delete):
            removers.append((n, 'del'))
    ctx.floor('C10-R6', len(raises), 1, 'eviction refusals in TrajectoryCache.popitem')
    ctx.floor('C10-R6/remove', len(removers), 1, 'removals in TrajectoryCache.popitem')
    for r in raises:
        late = [(n, cn) for n, cn in removers if g.reaches(n.id, r.id, edge_ok=lambda a, b, lab: lab != 'e')]
        ok = not late
        ctx.ob('C10-R6', fi, f'`{norm(r.stmt)[:60]}` is decided before any removal', ok,
               'nothing has been taken out of the cache when the eviction is refused' if ok else
               (f'`{late[0][1]}(…)` (line {late[0][0].line}) has already removed the least recently used trajectory when the '
                'eviction is refused: the add that overflowed an in-memory store is rejected, yet an earlier trajectory is gone '
                'and cannot be reloaded'), line=r.line)


def run(ctx):
    rule_caches(ctx)
    rule_eviction(ctx)
    rule_add(ctx)
    rule_merge(ctx)
    ctx.assumptions += [
        'os.rename is atomic within one file system; netCDF4/HDF5 crash behaviour is not modelled',
        'a rejection is an explicit `raise` in repository code; third-party I/O errors are crashes',
        'except Exception / BaseException handlers are treated as catching every rejection',
    ]
