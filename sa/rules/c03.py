"""C03 — what is stored in a trajectory store is what is read back.

R1  species-axis agreement (T-AGREE): the iterable whose position supplies the
    index on the species axis is the same *source* at dimension creation, in
    the writer and in the reader (the file's own species list, or the enum
    everywhere).  R1b the same for the thrust-mode axis.  R1c the index
    variables are used in the subscript in dimension order (species before
    thrust mode).
R2  absent <-> skipped agreement: where the writer can leave a cell unwritten
    (skip under `if sp in val`, early return for None) the reader's arm for
    that case tells "never written" from a value (fill value / emptiness).
R3  case-table exhaustiveness: the legal dimension combinations are derived
    from Dimensions.__init__; each of the four `match` tables has an arm for
    each legal combination and a default that raises.
R4  digest completeness: every FieldMetadata field enters digest_info;
    FieldSet.digest covers the name and all fields in sorted order; the
    variable attributes written at creation are the ones read back by
    from_netcdf_group.
R5  hash gate: a NcFiles value is only returned on paths that passed the
    digest comparison (or the explicit force_fieldset_matches escape).
R6  the writer writes, and the reader reads, at the record index it is given,
    and every field of every field set is visited (no filter on the loops).
"""

from __future__ import annotations

import ast
import itertools

from ..astutil import first_stmt, last_stmt  # noqa: F401
from ..astutil import (ancestors, call_name, calls_in, guards_of, kwarg, norm, single_def_value,
                       stmt_of, stores_to, walk_no_nested)
from ..cfg import CFG
from ..loader import ClassInfo, dotted_name
from ..resolve import callers_of, resolve_call, resolve_class_call

STORE = 'trajectories/store.py'
FS = 'storage/field_sets.py'
DIMS = 'storage/dimensions.py'


# ---------------------------------------------------------------- R1 -----
def classify_axis_source(prog, fi, e: ast.expr, depth=0) -> str:
    """'enum:<Name>' | 'file' | 'other:<text>'"""
    if depth > 5:
        return 'other:' + norm(e)
    if isinstance(e, ast.BoolOp) and isinstance(e.op, ast.Or):
        # nc_file.species or []
        return classify_axis_source(prog, fi, e.values[0], depth + 1)
    if isinstance(e, ast.IfExp):
        a = classify_axis_source(prog, fi, e.body, depth + 1)
        b = classify_axis_source(prog, fi, e.orelse, depth + 1)
        if a == b:
            return a
        # `values if values is not None else enum_type`
        t = norm(e.test)
        if t.endswith('is not None') and norm(e.body) in t:
            return f'opt({a}|{b})'
        return f'other:{norm(e)}'
    if isinstance(e, ast.Attribute) and e.attr == 'species':
        return 'file'
    if isinstance(e, ast.Name):
        r = prog.resolve_name(fi.module, e.id)
        if isinstance(r, ClassInfo) and any('Enum' in b for c in r.mro() for b in c.base_exprs):
            return f'enum:{r.name}'
        if e.id in fi.params:
            # the parameter that is recorded as the file's species list
            for c in calls_in(fi.node):
                rc = resolve_class_call(prog, fi, c)
                if rc is not None and rc.name == 'NcFiles':
                    v = kwarg(c, 'species')
                    if v is not None and norm(v) == e.id:
                        return 'file'
            cs = callers_of(prog, fi)
            idx = fi.params.index(e.id)
            off = 1 if fi.params[:1] in (['self'], ['cls']) else 0
            classes = set()
            for caller, call in cs:
                arg = None
                if len(call.args) > idx - off and idx - off >= 0:
                    arg = call.args[idx - off]
                if kwarg(call, e.id) is not None:
                    arg = kwarg(call, e.id)
                if arg is None:
                    d = _default_of(fi, e.id)
                    classes.add('default:' + (norm(d) if d is not None else '?'))
                else:
                    classes.add(classify_axis_source(prog, caller, arg, depth + 1))
            if len(classes) == 1:
                return classes.pop()
            if classes:
                return 'mixed:' + '|'.join(sorted(classes))
        d = single_def_value(fi.node, e.id)
        if d is not None:
            return classify_axis_source(prog, fi, d, depth + 1)
    if isinstance(e, ast.Call) and call_name(e) in ('list', 'tuple') and e.args:
        return classify_axis_source(prog, fi, e.args[0], depth + 1)
    return 'other:' + norm(e)


def _default_of(fi, name):
    a = fi.node.args
    pos = a.posonlyargs + a.args
    for arg, d in zip(pos[len(pos) - len(a.defaults):], a.defaults):
        if arg.arg == name:
            return d
    for arg, d in zip(a.kwonlyargs, a.kw_defaults):
        if arg.arg == name:
            return d
    return None


def _enumerates(fn_node):
    """(index var, elem var, source expr, node) for `for i, x in enumerate(S)` in loops and comprehensions."""
    out = []
    for n in ast.walk(fn_node):
        tgt = it = None
        if isinstance(n, ast.For):
            tgt, it = n.target, n.iter
        elif isinstance(n, ast.comprehension):
            tgt, it = n.target, n.iter
        if it is not None and isinstance(it, ast.Call) and call_name(it) == 'enumerate' and it.args \
                and isinstance(tgt, ast.Tuple) and len(tgt.elts) == 2 \
                and all(isinstance(x, ast.Name) for x in tgt.elts):
            out.append((tgt.elts[0].id, tgt.elts[1].id, it.args[0], it))
    return out


def rule_axis(ctx, m):
    prog = ctx.prog
    wr = m.func('TrajectoryStore._write_to_nc_var')
    rd = m.func('TrajectoryStore._read_from_nc_var')
    cd = m.func('_create_dimensions')
    ced = m.functions.get('_create_dimensions.<locals>.create_enum_dimension')
    if ced is None:
        ctx.undecided('C03-R1', cd, 'create_enum_dimension', 'helper not found')

    # dimension creation sites: calls create_enum_dimension(name, enum, values?)
    dim_src = {}
    for c in calls_in(cd.node):
        if call_name(c) == 'create_enum_dimension' and c.args and isinstance(c.args[0], ast.Constant):
            axis = c.args[0].value
            vals = c.args[2] if len(c.args) > 2 else kwarg(c, 'values')
            if vals is not None and not (isinstance(vals, ast.Constant) and vals.value is None):
                dim_src[axis] = (classify_axis_source(prog, cd, vals), c)
            else:
                dim_src[axis] = (classify_axis_source(prog, cd, c.args[1]), c)
    ctx.floor('C03-R1', len(dim_src), 2, 'enum dimensions created')
    # the helper must size and fill the dimension from the same iterable
    en = _enumerates(ced.node)
    sz = [c for c in calls_in(ced.node) if call_name(c).endswith('createDimension')]
    ok = len(en) == 1 and len(sz) == 1 and norm(en[0][2]).replace(' ', '') == \
        'valuesifvaluesisnotNoneelseenum_type'
    ok = ok and 'len(values) if values is not None else len(enum_type)' in norm(sz[0])
    ctx.ob('C03-R1', ced, 'dimension length and coordinate labels come from one iterable', ok,
           'len(values or enum) and enumerate(values or enum)' if ok else
           'dimension size and coordinate labels are taken from different iterables', nontrivial=False)

    def axis_of(src_class):
        if src_class == 'file' or src_class == 'enum:Species':
            return 'species'
        if src_class == 'enum:ThrustMode':
            return 'thrust_mode'
        return None

    sites = {'species': [], 'thrust_mode': []}
    for role, fi in (('writer', wr), ('reader', rd)):
        for ivar, evar, src, node in _enumerates(fi.node):
            cl = classify_axis_source(prog, fi, src)
            ax = axis_of(cl)
            if ax is None:
                # decide the axis from the element variable name as a fallback
                ax = 'species' if evar.startswith('sp') else ('thrust_mode' if evar.startswith('t') else None)
            if ax is None:
                ctx.undecided('C03-R1', fi, norm(node), f'cannot tell which axis {norm(src)} enumerates')
            sites[ax].append((role, fi, cl, node, ivar))
    ctx.floor('C03-R1/species', len(sites['species']), 4, 'species-axis enumerations in writer+reader')
    ctx.floor('C03-R1b/thrust', len(sites['thrust_mode']), 4, 'thrust-mode enumerations in writer+reader')
    for ax, rule in (('species', 'C03-R1'), ('thrust_mode', 'C03-R1b')):
        ref, refcall = dim_src.get(ax, (None, None))
        if ref is None:
            ctx.undecided(rule, cd, ax, 'dimension creation site not found')
        ctx.ob(rule, cd, f'{ax} axis created from [{ref}]', True, 'reference for writer and reader',
               line=refcall.lineno, nontrivial=False)
        for role, fi, cl, node, ivar in sites[ax]:
            ok = cl == ref
            ctx.ob(rule, fi, f'{role} positions {ax} by enumerate({norm(node.args[0])}) [{cl}]', ok,
                   f'same source as the dimension ({ref})' if ok else
                   (f'the {ax} axis of the file is laid out by [{ref}] but the {role} takes the position '
                    f'from [{cl}]: values land in / come from the wrong slot unless the two orders coincide'),
                   line=node.lineno)

    # R1c subscript order
    for role, fi in (('writer', wr), ('reader', rd)):
        sp_vars = {iv for r, f, cl, n, iv in sites['species'] if f is fi}
        tm_vars = {iv for r, f, cl, n, iv in sites['thrust_mode'] if f is fi}
        for n in ast.walk(fi.node):
            if isinstance(n, ast.Subscript) and isinstance(n.value, ast.Name) and n.value.id == 'var' \
                    and isinstance(n.slice, ast.Tuple):
                idx = [norm(x) for x in n.slice.elts]
                used_sp = [i for i, x in enumerate(idx) if x in sp_vars]
                used_tm = [i for i, x in enumerate(idx) if x in tm_vars]
                ok = idx[0] == 'index' and (not used_sp or used_sp == [1]) and \
                    (not used_tm or used_tm == [len(idx) - 1]) and \
                    (not (used_sp and used_tm) or used_sp[0] < used_tm[0])
                ctx.ob('C03-R1c', fi, f'{role} subscript var[{", ".join(idx)}]', ok,
                       'record, species, thrust-mode in dimension order' if ok else
                       'index variables are not in the order of the variable\'s dimensions', line=n.lineno)


# ---------------------------------------------------------------- R3 -----
def legal_combinations(ctx, prog):
    """Derive legal (POINT, SPECIES, THRUST_MODE) combinations from Dimensions.__init__."""
    dm = prog.module(DIMS)
    init = dm.func('Dimensions.__init__')
    conds = []
    for n in walk_no_nested(init.node):
        if isinstance(n, ast.If) and isinstance(first_stmt(n.body), ast.Raise):
            conds.append(n.test)
    ctx.floor('C03-R3/constraints', len(conds), 2, 'Dimensions.__init__ constraints')

    def ev(e, present):
        if isinstance(e, ast.BoolOp):
            vs = [ev(v, present) for v in e.values]
            return all(vs) if isinstance(e.op, ast.And) else any(vs)
        if isinstance(e, ast.UnaryOp) and isinstance(e.op, ast.Not):
            return not ev(e.operand, present)
        if isinstance(e, ast.Compare) and len(e.ops) == 1 and isinstance(e.left, ast.Attribute):
            d = e.left.attr
            if isinstance(e.ops[0], ast.In):
                return d in present
            if isinstance(e.ops[0], ast.NotIn):
                return d not in present
        raise ValueError(norm(e))

    legal = []
    for p, s, t in itertools.product([False, True], repeat=3):
        present = {'TRAJECTORY'} | ({'POINT'} if p else set()) | ({'SPECIES'} if s else set()) \
            | ({'THRUST_MODE'} if t else set())
        try:
            rejected = any(ev(c, present) for c in conds)
        except ValueError as e:
            ctx.undecided('C03-R3', init, str(e), 'constraint form not recognised')
        if not rejected:
            legal.append({'POINT': p, 'SPECIES': s, 'THRUST_MODE': t})
    return legal


def _subject_dims(fi, match: ast.Match):
    subj = match.subject
    elts = subj.elts if isinstance(subj, ast.Tuple) else [subj]
    out = []
    for e in elts:
        if isinstance(e, ast.Name):
            d = single_def_value(fi.node, e.id)
            e = d if d is not None else e
        if isinstance(e, ast.Compare) and isinstance(e.ops[0], ast.In) and isinstance(e.left, ast.Attribute) \
                and norm(e.left.value) == 'Dimension':
            out.append(e.left.attr)
        else:
            return None
    return out


def _pattern_rows(p: ast.pattern, width: int):
    """Set of tuples a pattern matches; None for wildcard."""
    if isinstance(p, ast.MatchAs) and p.pattern is None:
        return None
    if isinstance(p, ast.MatchOr):
        rows = set()
        for q in p.patterns:
            r = _pattern_rows(q, width)
            if r is None:
                return None
            rows |= r
        return rows
    if isinstance(p, ast.MatchSequence) and len(p.patterns) == width:
        opts = []
        for q in p.patterns:
            if isinstance(q, ast.MatchSingleton):
                opts.append([q.value])
            elif isinstance(q, ast.MatchValue) and isinstance(q.value, ast.Constant):
                opts.append([q.value.value])
            elif isinstance(q, ast.MatchAs) and q.pattern is None:
                opts.append([False, True])
            else:
                raise ValueError(norm(p))
        return set(itertools.product(*opts))
    raise ValueError(norm(p))


def rule_tables(ctx, m, legal):
    prog = ctx.prog
    fs = prog.module(FS)
    tables = [
        (fs.func('FieldMetadata.empty'), True),
        (fs.func('FieldMetadata.convert_in'), True),
        (m.func('TrajectoryStore._write_to_nc_var'), False),
        (m.func('TrajectoryStore._read_from_nc_var'), True),
    ]
    ntab = 0
    arms = {}
    for fi, need_default in tables:
        ms = [n for n in walk_no_nested(fi.node) if isinstance(n, ast.Match)]
        if len(ms) != 1:
            ctx.undecided('C03-R3', fi, 'match', f'{len(ms)} match statements (dispatch idiom changed)')
        mt = ms[0]
        dims = _subject_dims(fi, mt)
        if dims is None:
            ctx.undecided('C03-R3', fi, norm(mt.subject), 'match subject is not a tuple of `Dimension.X in …` tests')
        ntab += 1
        covered = {}
        default = None
        for c in mt.cases:
            try:
                rows = _pattern_rows(c.pattern, len(dims))
            except ValueError as e:
                ctx.undecided('C03-R3', fi, str(e), 'case pattern form not recognised')
            if rows is None:
                default = c
                continue
            for r in rows:
                covered.setdefault(r, c)
        arms[fi.qualname] = (dims, covered, default, mt)
        for combo in legal:
            row = tuple(combo[d] for d in dims)
            ok = row in covered
            ctx.ob('C03-R3', fi, f'arm for {"".join(k[0] for k, v in combo.items() if v) or "scalar"} '
                   f'({", ".join(f"{d}={combo[d]}" for d in dims)})', ok,
                   f'case at line {covered[row].pattern.lineno}' if ok else
                   'a legal field shape has no arm: values of that shape hit the default / fall through',
                   line=mt.lineno)
        illegal_rows = set(itertools.product([False, True], repeat=len(dims))) - \
            {tuple(c[d] for d in dims) for c in legal}
        if need_default or illegal_rows - set(covered):
            ok = default is not None and any(isinstance(s, ast.Raise) for s in default.body)
            ctx.ob('C03-R3', fi, 'default arm raises', ok,
                   'illegal combinations are refused' if ok else 'no raising default arm', line=mt.lineno,
                   nontrivial=False)
    ctx.floor('C03-R3', ntab, 4, 'dimension case tables')
    return arms


# ---------------------------------------------------------------- R2 -----
def rule_absent(ctx, m, arms):
    wr = m.func('TrajectoryStore._write_to_nc_var')
    rd = m.func('TrajectoryStore._read_from_nc_var')
    wdims, wcov, _, _ = arms[wr.qualname]
    rdims, rcov, _, _ = arms[rd.qualname]
    # writer: None handling
    none_if = [n for n in wr.node.body if isinstance(n, ast.If) and norm(n.test) in ('val is None', 'None is val')]
    okn = bool(none_if) and any(isinstance(s, ast.Return) for s in none_if[0].body) and \
        any(isinstance(s, ast.If) and 'required' in norm(s.test) and isinstance(first_stmt(s.body), ast.Raise)
            for s in none_if[0].body)
    ctx.ob('C03-R2', wr, 'unset value: refused if required, else nothing written', okn,
           '`if val is None: if field.required: raise; return`' if okn else
           'the writer no longer separates unset required from unset optional values')
    for row, case in sorted(rcov.items(), key=lambda kv: kv[0]):
        combo = dict(zip(rdims, row))
        wrow = tuple(combo[d] for d in wdims)
        wcase = wcov.get(wrow)
        if wcase is None:
            continue
        if any(combo[d] for d in ('POINT', 'THRUST_MODE')) and combo.get('POINT') and combo.get('THRUST_MODE'):
            continue
        label = ''.join(d[0] for d in rdims if combo[d]) or 'scalar'
        # R2b: per-point cells are variable-length: a cell that was never written reads back as an empty array, and the
        # reader uses emptiness as its "never written" marker (`all(cell == fill)` is vacuously true for an empty cell,
        # `len(v) > 0` filters species).  That marker must not be met by a value that can legitimately be stored: it is,
        # whenever a trajectory may have zero points.
        if combo.get('POINT') and not combo.get('THRUST_MODE'):
            arm_txt = ' '.join(norm(s_) for s_ in case.body)
            vacuous = [x for s_ in case.body for x in ast.walk(s_) if isinstance(x, ast.Call) and call_name(x) == 'all'
                       and x.args and isinstance(x.args[0], ast.Compare)]
            empt = [x for s_ in case.body for x in ast.walk(s_) if isinstance(x, ast.Compare) and norm(x).startswith('len(')
                    and norm(x).endswith(('> 0', '!= 0', '>= 1'))]
            uses_emptiness = bool(vacuous or empt)
            add = m.func('TrajectoryStore.add')
            zero_refused = any(isinstance(r, ast.Raise) and any(
                any(k in norm(t) for k in ('len(trajectory) == 0', 'len(trajectory) < 1', 'not len(trajectory)', 'npoints == 0',
                                           'npoints < 1')) for t, pol, _ in guards_of(r)) for r in walk_no_nested(add.node))
            ok = not uses_emptiness or zero_refused
            marker = norm(vacuous[0])[:50] if vacuous else (norm(empt[0]) if empt else '?')
            ctx.ob('C03-R2', rd, f'reader arm {label}: the never-written marker is not met by a storable value', ok,
                   ('zero-point trajectories are refused by add' if zero_refused else 'the marker is not emptiness') if ok else
                   (f'the marker is emptiness (`{marker}`), an empty per-point array is what a zero-point trajectory stores, and `add` accepts zero-point trajectories: '
                    'its arrays read back as unset (None)' + (' and its species are dropped' if combo['SPECIES'] else
                                                               '; for a required field _load_trajectory then fails with TypeError (len(None))')),
                   line=case.pattern.lineno)
        # can the writer skip a cell in this arm?
        w_skips = [n for n in ast.walk(wcase) if isinstance(n, ast.If) and
                   any(isinstance(o, ast.In) for c in ast.walk(n.test) if isinstance(c, ast.Compare) for o in c.ops)]
        arm_src = ' '.join(norm(s) for s in case.body)
        if combo['SPECIES']:
            if not w_skips:
                ctx.ob('C03-R2', rd, f'reader arm {label}: writer writes every cell', True,
                       'no skip in the writer arm, nothing to filter', line=case.pattern.lineno, nontrivial=False)
                continue
            comps = [n for s in case.body for n in ast.walk(s)
                     if isinstance(n, (ast.DictComp, ast.ListComp, ast.GeneratorExp)) and
                     any(g.ifs for g in n.generators)]
            filt = [norm(i) for n in comps for g in n.generators for i in g.ifs]
            recognised = [f for f in filt if any(k in f for k in ('fill', 'len(', '.size', 'mask', 'isnan'))]
            sp_filter = False
            for n in comps:
                if isinstance(n, ast.DictComp) and any(g.ifs for g in n.generators):
                    # the outermost species mapping must be the filtered one
                    par = getattr(n, '_parent', None)
                    while par is not None and not isinstance(par, (ast.Call, ast.stmt)):
                        par = getattr(par, '_parent', None)
                    if isinstance(par, ast.Call) and 'SpeciesValues' in norm(par.func):
                        sp_filter = True
            ok = bool(recognised) and sp_filter
            ctx.ob('C03-R2', rd, f'reader arm {label}: never-written species are dropped', ok,
                   f'species mapping filtered by {recognised}' if ok else
                   ('the writer skips species a value does not contain (`if sp in val`) but this reader arm '
                    'rebuilds every species of the file for every field: species are invented on read-back'),
                   line=case.pattern.lineno)
        elif not combo['THRUST_MODE']:
            ok = 'get_fill_value' in arm_src and 'return None' in arm_src
            ctx.ob('C03-R2', rd, f'reader arm {label}: unset value reads back as None', ok,
                   'fill value → None' if ok else
                   'an optional value that was never written does not read back as unset',
                   line=case.pattern.lineno)


# ---------------------------------------------------------------- R4 -----
def rule_digest(ctx, m):
    prog = ctx.prog
    fs = prog.module(FS)
    fm = fs.cls('FieldMetadata')
    di = fs.func('FieldMetadata.digest_info')
    fields = list(fm.annotated_fields())
    ctx.floor('C03-R4', len(fields), 6, 'FieldMetadata fields')
    used = {n.attr for n in ast.walk(di.node) if isinstance(n, ast.Attribute) and norm(n.value) == 'self'}
    for f in fields:
        ok = f in used
        ctx.ob('C03-R4', di, f'field `{f}` enters the digest', ok,
               'referenced by digest_info' if ok else
               f'metadata attribute `{f}` is not part of the digest: a file written under one definition '
               'opens under another', line=di.node.lineno)
    dg = fs.func('FieldSet.digest')
    src = ' '.join(norm(s) for s in dg.node.body)
    ok = 'sorted(' in src and 'digest_info' in src and 'fieldset_name' in src
    ctx.ob('C03-R4', dg, 'digest covers name and every field in sorted order', ok,
           'name + sorted(field names) + digest_info' if ok else 'digest is order-dependent or incomplete')
    # attribute round trip
    cn = m.func('TrajectoryStore._create_nc_file')
    written = set()
    for t, st, how in stores_to(cn.node):
        if isinstance(t, ast.Attribute) and norm(t.value) == 'v':
            written.add(t.attr)
    fg = fs.func('FieldSet.from_netcdf_group')
    read = set()
    for c in calls_in(fg.node):
        if call_name(c).endswith('getncattr') and c.args and isinstance(c.args[0], ast.Constant):
            read.add(c.args[0].value)
    ok = written == read and written >= {'description', 'units', 'required'}
    ctx.ob('C03-R4', fg, f'variable attributes written {sorted(written)} = read {sorted(read)}', ok,
           'creation and reconstruction agree' if ok else
           'attributes written at creation and read by from_netcdf_group differ')
    req_w = [st for t, st, how in stores_to(cn.node) if isinstance(t, ast.Attribute) and t.attr == 'required']
    req_r = [k for c in calls_in(fg.node) for k in [kwarg(c, 'required')] if k is not None]
    ok = bool(req_w) and bool(req_r) and "'true' if" in norm(req_w[0].value) and "== 'true'" in norm(req_r[0])
    ctx.ob('C03-R4', fg, 'required flag encoding round-trips', ok,
           "'true'/'false' written, == 'true' read" if ok else 'required flag encoded and decoded differently',
           nontrivial=False)


# ---------------------------------------------------------------- R5 -----
def rule_hash_gate(ctx, m):
    for qn in ('TrajectoryStore._open_nc_file', 'TrajectoryStore._open_merged_store'):
        fi = m.func(qn)
        g = CFG(fi.node)
        dom = g.dominators(edge_ok=lambda a, b, lab: lab != 'e')
        gate = None
        for n in g.nodes:
            if n.kind == 'stmt' and isinstance(n.stmt, ast.Raise):
                gs = guards_of(n.stmt)
                txt = [(norm(t), pol) for t, pol, _ in gs]
                def is_gate(t):
                    return any(isinstance(x, ast.Compare) and isinstance(x.ops[0], ast.NotEq) and
                               any(isinstance(y, ast.Attribute) and y.attr == 'digest'
                                   for y in [x.left] + x.comparators) for x in ast.walk(t))
                if any(is_gate(t) and pol for t, pol, _ in gs):
                    extra = [norm(t) for t, pol, _ in gs if not is_gate(t)]
                    okx = all(t == 'not self.force_fieldset_matches' for t in extra)
                    loops = [a for a in ancestors(n.stmt) if isinstance(a, ast.For)]
                    gate = (n, okx, loops)
        if gate is None:
            ctx.ob('C03-R5', fi, 'digest comparison refuses a mismatch', False,
                   'no raise guarded by a digest mismatch: any file opens under any definition')
            continue
        n, okx, loops = gate
        rets = [r for r in g.nodes if r.kind == 'stmt' and isinstance(r.stmt, ast.Return)
                and r.stmt.value is not None and 'NcFiles' in norm(r.stmt.value)]
        heads = [x for lp in loops for x in g.nodes_of(lp)]
        ok = okx and bool(rets) and all(any(h in dom[r.id] for h in heads) for r in rets)
        ctx.ob('C03-R5', fi, 'NcFiles returned only after the digest gate', ok,
               'the check loop dominates the return; only force_fieldset_matches bypasses it' if ok else
               'a path returns the file description without passing the digest comparison', line=n.line)
        lp = loops[0] if loops else None
        ok = lp is not None and 'zip(fieldset_names, fieldset_hashes)' in norm(lp.iter)
        ctx.ob('C03-R5', fi, 'every stored field-set hash is compared', ok,
               norm(lp.iter) if ok else 'the gate does not visit every (name, hash) pair of the file',
               line=(lp.lineno if lp else fi.node.lineno), nontrivial=False)


# ---------------------------------------------------------------- R6 -----
def rule_index_use(ctx, m):
    wr = m.func('TrajectoryStore._write_to_nc_var')
    rd = m.func('TrajectoryStore._read_from_nc_var')
    for role, fi in (('writer', wr), ('reader', rd)):
        bad = []
        n_sub = 0
        for n in ast.walk(fi.node):
            if isinstance(n, ast.Subscript) and isinstance(n.value, ast.Name) and n.value.id == 'var':
                n_sub += 1
                first = n.slice.elts[0] if isinstance(n.slice, ast.Tuple) else n.slice
                if norm(first) != 'index':
                    bad.append(n)
        ctx.floor(f'C03-R6/{role}', n_sub, 4, f'{role} variable subscripts')
        ctx.ob('C03-R6', fi, f'{role}: {n_sub} variable accesses all at [index, …]', not bad,
               'record index used as given' if not bad else
               f'{role} accesses record {norm(bad[0])} instead of the record index it was given',
               line=(bad[0].lineno if bad else fi.node.lineno))
    wd = m.func('TrajectoryStore._write_data')
    lt = m.func('TrajectoryStore._load_trajectory')
    for fi, what in ((wd, 'for name in group.variables'), (lt, 'for name, field in fs.items()')):
        loops = [n for n in walk_no_nested(fi.node) if isinstance(n, ast.For) and
                 f'for {norm(n.target).strip("()")} in {norm(n.iter)}' == what]
        ok = bool(loops) and not any(isinstance(s, ast.Continue) for lp in loops for s in ast.walk(lp))
        ctx.ob('C03-R6', fi, f'`{what}` visits every field', ok,
               'no filter / continue in the field loop' if ok else 'some fields are skipped by the field loop',
               line=(loops[0].lineno if loops else fi.node.lineno), nontrivial=False)
    # value written is the attribute of the same name
    vals = [st for t, st, how in stores_to(wd.node) if isinstance(t, ast.Name) and t.id == 'val'
            and isinstance(st.value, ast.Call)]
    ok = bool(vals) and all(call_name(s.value) == 'getattr' and norm(s.value.args[1]) == 'name' for s in vals)
    ctx.ob('C03-R6', wd, 'value written for a variable is the attribute of the same name', ok,
           'getattr(traj|data, name)' if ok else 'the value written does not come from the field of the same name')
    sets = [c for c in calls_in(lt.node) if call_name(c) == 'setattr']
    ok = bool(sets) and norm(sets[0].args[1]) == 'k' and norm(sets[0].args[2]) == 'v'
    st_data = [st for t, st, how in stores_to(lt.node) if isinstance(t, ast.Subscript) and norm(t.value) == 'data']
    ok = ok and bool(st_data) and norm(st_data[0].targets[0].slice) == 'name' and norm(st_data[0].value) == 'val'
    ctx.ob('C03-R6', lt, 'value read for a variable is assigned to the field of the same name', ok,
           'data[name] = val; setattr(traj, k, v)' if ok else 'read values are assigned under a different name')
    # ... for every field read, whatever its value (None is a value: an unset optional field)
    for c in sets:
        lp = next((a for a in ancestors(c) if isinstance(a, (ast.For, ast.While))), None)
        inner = [t for t, pol, o in guards_of(stmt_of(c)) if lp is not None and any(a is lp for a in ancestors(o))]
        esc = [x for x in (ast.walk(lp) if lp is not None else []) if isinstance(x, (ast.Continue, ast.Break))]
        ok = lp is not None and not inner and not esc
        ctx.ob('C03-R6', lt, f'{norm(c)} runs for every value read', ok,
               'unconditional in the loop over the values read' if ok else
               (f'the assignment is skipped for some values ({norm(inner[0]) if inner else "continue/break in the loop"}): the '
                'freshly constructed trajectory keeps the field\'s declared default there, so an optional field that was '
                'stored unset (None) reads back as its default instead of None'), line=c.lineno)


# ---------------------------------------------------------------- R1d ----
def _base_name(e):
    """X for `X.species`, `X.species or []`, `X.groups[..][..]`, ..."""
    if isinstance(e, ast.BoolOp):
        e = e.values[0]
    while isinstance(e, (ast.Subscript, ast.Attribute)):
        if isinstance(e, ast.Attribute) and isinstance(e.value, ast.Name):
            return e.value.id, e.attr
        e = e.value
    return None, None


def rule_same_file(ctx, m):
    """the species list handed to the writer / reader belongs to the very file
    object whose variable is written / read"""
    for caller_q, callee, sp_pos in (('TrajectoryStore._write_data', '_write_to_nc_var', 5),
                                     ('TrajectoryStore._load_trajectory', '_read_from_nc_var', 4)):
        fi = m.func(caller_q)
        calls = [c for c in calls_in(fi.node) if call_name(c).endswith(callee)]
        ctx.floor(f'C03-R1d/{callee}', len(calls), 1, f'call of {callee}')
        for c in calls:
            sp = c.args[sp_pos] if len(c.args) > sp_pos else kwarg(c, 'species')
            if sp is None:
                ctx.ob('C03-R1d', fi, f'{callee}: no species list passed', False,
                       'the file\'s own species list is not handed to the writer/reader', line=c.lineno)
                continue
            var = c.args[0]
            # species side
            spx = sp
            if isinstance(spx, ast.Name):
                d = single_def_value(fi.node, spx.id)
                spx = d if d is not None else spx
            sb, sattr = _base_name(spx) if spx is not None else (None, None)
            # variable side: var <- group.variables[...] ; group <- X.groups[...]
            vx = var
            if isinstance(vx, ast.Name):
                d = single_def_value(fi.node, vx.id)
                vx = d if d is not None else vx
            gb, _ = _base_name(vx)
            if gb is not None:
                gd = single_def_value(fi.node, gb)
                if gd is not None:
                    gb2, gattr = _base_name(gd)
                    if gattr == 'groups':
                        gb = gb2
            ok = sb is not None and sattr == 'species' and sb == gb
            ctx.ob('C03-R1d', fi, f'{callee}: variable from `{gb}`, species list `{norm(sp)[:50]}`', ok,
                   'species positions come from the file object that owns the variable' if ok else
                   (f'the species list passed to {callee} is `{norm(spx)[:70]}`, not the `.species` of `{gb}`, the file '
                    'that owns the variable: in a store split over base and associated files the two lists differ '
                    '(after reopening) and species values are written to / read from the wrong slots or dropped'),
                   line=c.lineno)


# ---------------------------------------------------------------- R7 -----
def rule_accumulators(ctx, m):
    """lost accumulation: a container initialised empty before a loop, used after
    it, but *rebound* inside the loop by an expression that does not mention it"""
    n = 0
    for fi in m.functions.values():
        for lp in [x for x in walk_no_nested(fi.node) if isinstance(x, ast.For)]:
            blk = getattr(lp, '_parent', None)
            for t, st, how in stores_to(lp):
                if not (isinstance(t, ast.Name) and how in ('assign', 'ann')):
                    continue
                name = t.id
                if any(isinstance(x, ast.Name) and x.id == name for x in ast.walk(st.value)):
                    continue
                inits = [s for tt, s, h in stores_to(fi.node) if isinstance(tt, ast.Name) and tt.id == name
                         and s.lineno < lp.lineno and h in ('assign', 'ann') and _is_empty_container(getattr(s, 'value', None))
                         and not any(a is lp for a in ancestors(s))]
                if not inits:
                    continue
                init = inits[-1]
                # init and loop in the same block (or loop nested right under it), accumulator used after the loop
                used_after = any(isinstance(x, ast.Name) and x.id == name and isinstance(x.ctx, ast.Load)
                                 and x.lineno > (lp.end_lineno or lp.lineno) for x in walk_no_nested(fi.node))
                # the rebinding must depend on the loop (otherwise it is just a reset)
                loopvars = {x.id for x in ast.walk(lp.target) if isinstance(x, ast.Name)}
                inner_defs = {tt.id for tt, s2, h2 in stores_to(lp) if isinstance(tt, ast.Name)}
                depends = any(isinstance(x, ast.Name) and x.id in (loopvars | inner_defs) for x in ast.walk(st.value))
                # a reset at the top of an *inner* per-item block followed by accumulation in a deeper loop is fine
                nested_accum = any(isinstance(x, ast.Call) and isinstance(x.func, ast.Attribute) and norm(x.func.value) == name
                                   and x.func.attr in ('update', 'add', 'append', 'extend') and x.lineno > st.lineno
                                   for x in ast.walk(lp)) and False
                if used_after and depends and init.lineno < lp.lineno:
                    n += 1
                    ctx.ob('C03-R7', fi, f'`{name}` initialised empty (line {init.lineno}) then rebound in loop: {norm(st)[:60]}',
                           False, (f'`{name}` is meant to accumulate over `for {norm(lp.target)} in {norm(lp.iter)}` but is '
                                   'overwritten on every iteration: only the last iteration contributes (species of earlier '
                                   'field sets are missing from the file and silently not written)'), line=st.lineno)
    ctx.ob('C03-R7', (m.relpath, '<module>'), f'{len(m.functions)} functions scanned for lost accumulations', True,
           f'{n} found', nontrivial=False)
    ctl = ast.parse('def f(xs):\n s = set()\n for x in xs:\n  s = {y for y in x}\n return s')
    f = ctl.body[0]
    for a in ast.walk(f):
        for ch in ast.iter_child_nodes(a):
            ch._parent = a
    lp = f.body[1]
    hit = any(isinstance(t, ast.Name) and t.id == 's' for t, st, how in stores_to(lp))
    ctx.control('C03-R7', hit and _is_empty_container(f.body[0].value), 'embedded lost-accumulation example is recognised')


def _is_empty_container(v):
    if v is None:
        return False
    if isinstance(v, (ast.List, ast.Set, ast.Tuple)) and not v.elts:
        return True
    if isinstance(v, ast.Dict) and not v.keys:
        return True
    if isinstance(v, ast.Call) and call_name(v) in ('set', 'list', 'dict') and not v.args:
        return True
    return False


def rule_cast(ctx):
    """R8: every value accepted into a field is brought to the field's own data
    type (what is stored is what the NetCDF variable will hold): each return of
    FieldMetadata._cast derives from `.astype(self.field_type, …)`."""
    fs = ctx.prog.module(FS)
    fi = fs.func('FieldMetadata._cast')
    rets = [n for n in walk_no_nested(fi.node) if isinstance(n, ast.Return) and n.value is not None]
    ctx.floor('C03-R8', len(rets), 1, 'returns of _cast')
    for r in rets:
        v = r.value
        ok = False
        if isinstance(v, ast.Name):
            defs = [st for t, st, how in stores_to(fi.node) if isinstance(t, ast.Name) and t.id == v.id]
            srcs = ' '.join(norm(d.value) for d in defs)
            ok = bool(defs) and 'astype(self.field_type' in srcs and all(
                'astype(self.field_type' in norm(d.value) or f'{v.id}.item()' in norm(d.value) for d in defs)
        elif 'astype(self.field_type' in norm(v):
            ok = True
        ctx.ob('C03-R8', fi, f'return {norm(v)[:50]}', ok,
               'value cast to the field type' if ok else
               ('a value is returned without being cast to the field\'s data type: for a field narrower than a Python '
                'float (float32, float16) the trajectory keeps the double and reads back a different, rounded value'),
               line=r.lineno)
    # ... and every value that convert_in accepts goes through _cast (which also gives the container its own
    # copy: astype copies unless told otherwise)
    ci = fs.func('FieldMetadata.convert_in')
    crets = [n for n in walk_no_nested(ci.node) if isinstance(n, ast.Return)]
    ctx.floor('C03-R8/convert_in', len(crets), 7, 'returns of convert_in')
    for r in crets:
        v = r.value
        ok = v is None or (isinstance(v, ast.Constant) and v.value is None) or 'self._cast(' in norm(v)
        ctx.ob('C03-R8', ci, f'return {norm(v)[:50] if v is not None else ""}', ok,
               'None (unset optional) or built from self._cast(…) of the incoming data' if ok else
               ('the incoming object itself is stored: it is neither brought to the field type nor copied, so the trajectory '
                'shares the caller\'s array and changes when the caller reuses its buffer'), line=r.lineno)
    for c in calls_in(fi.node):
        if isinstance(c.func, ast.Attribute) and c.func.attr == 'astype':
            cp = kwarg(c, 'copy')
            ok = cp is None or (isinstance(cp, ast.Constant) and cp.value is True)
            ctx.ob('C03-R8', fi, f'{norm(c)[:60]} returns a new array', ok,
                   'astype copies by default' if ok else 'copy=False lets the stored array alias the caller\'s', line=c.lineno,
                   nontrivial=False)
    cc = [c for c in calls_in(fi.node) if call_name(c) == 'np.can_cast']
    ok = bool(cc) and any(k.arg == 'casting' and norm(k.value) == "'same_kind'" for k in cc[0].keywords)
    ctx.ob('C03-R8', fi, 'unsafe casts refused', ok, "np.can_cast(…, casting='same_kind') before casting" if ok else
           'the safety check of the cast changed', nontrivial=False)


def run(ctx):
    m = ctx.prog.module(STORE)
    rule_cast(ctx)
    rule_axis(ctx, m)
    rule_same_file(ctx, m)
    rule_accumulators(ctx, m)
    legal = legal_combinations(ctx, ctx.prog)
    ctx.stats['legal_dimension_combinations'] = [
        ''.join(k[0] for k, v in c.items() if v) or 'scalar' for c in legal]
    if len(legal) != 6:
        ctx.note(f'Dimensions.__init__ now admits {len(legal)} combinations (6 when the rules were written)')
    arms = rule_tables(ctx, m, legal)
    rule_absent(ctx, m, arms)
    rule_digest(ctx, m)
    rule_hash_gate(ctx, m)
    rule_index_use(ctx, m)
    ctx.assumptions += [
        'netCDF4 returns the fill value for cells never written and an empty array for unwritten VL cells',
        'values equal to the fill value are not legitimate data',
    ]
