"""C03 — what is stored in a trajectory store is what is read back.

R1  species-axis agreement (T-AGREE): the iterable whose position supplies the
    index on the species axis is the same *source* at dimension creation, in
    the writer and in the reader (the file's own species list, or the enum
    everywhere).  R1b the same for the thrust-mode axis.  R1c the index
    variables are used in the subscript in dimension order (species before
    thrust mode).  R1d the species list handed to the writer / reader is the
    `.species` of the very file object that owns the variable.
R2  absent <-> skipped agreement: where the writer can leave a cell unwritten
    (skip under `if sp in val`, early return for None) the reader's arm for
    that case tells "never written" from a value (fill value / emptiness).
R3  case-table exhaustiveness: the legal dimension combinations are derived
    from Dimensions.__init__.  Each of the four dispatching functions (empty,
    convert_in, writer, reader) is partially evaluated for every truth
    assignment of its `Dimension.X in ….dimensions` tests, whatever the idiom
    (`match` on a tuple or a flag, if/elif/else, nested ifs, guard clauses
    with early return, flags in locals, `and`/`or`/`not`/`==`, dict keyed by
    the flag tuple); the *arm* of an assignment is what runs for it and not
    for all.  Every legal combination has an arm that does something (not
    nothing, not an unconditional raise); no other combination passes
    silently.  Positive control: five embedded spellings.
R4  digest completeness: every FieldMetadata field enters digest_info;
    FieldSet.digest covers the name and all fields in sorted order; the
    variable attributes written at creation are the ones read back by
    from_netcdf_group.
R5  hash gate: a NcFiles value is only returned on paths that passed the
    digest comparison (or the explicit force_fieldset_matches escape).
R6  the writer writes, and the reader reads, at the record index it is given,
    and every field of every field set is visited (no filter on the loops).
R7  lost accumulation: a container initialised empty before a loop and used
    after it is not rebound inside the loop (positive control).
R8  every value accepted into a field is cast to the field's own data type
    and copied (FieldMetadata._cast / convert_in).
R9  writer domain within dimension domain: the species list that sizes and
    labels the species axis of a new file is traced back from
    `_create_dimensions` through parameters, callers, properties and helpers
    to the places where species enter it (`acc.update/add/|=` under loops,
    comprehensions).  The conditions on the *field* under which a field
    contributes (enclosing ifs, earlier `continue` guards, comprehension
    ifs; by category: has-species-dimension, value-is-set, a metadata
    attribute such as `required`, the field's name, another dimension) must
    be among the conditions under which the writer writes a field, read from
    `_write_data`'s field loops and the early returns of `_write_to_nc_var`
    (today: value is set).  Anything narrower leaves a written species
    without a slot.  Sliced / filtered loop sources and early exits are
    undecided.  Floor: 2 collections (new store, associated file); positive
    control.
"""

from __future__ import annotations

import ast
import itertools

from ..astutil import first_stmt, last_stmt  # noqa: F401
from ..astutil import (ancestors, call_name, calls_in, conjuncts, guards_of, is_within, kwarg, local_defs, norm,
                       single_def_value, stmt_of, stores_to, tuple_def_component, walk_no_nested)
from ..cfg import CFG
from ..loader import ClassInfo, dotted_name, parent
from ..resolve import callers_of, expr_class, resolve_call, resolve_class_call

STORE = 'trajectories/store.py'
FS = 'storage/field_sets.py'
DIMS = 'storage/dimensions.py'


# ---------------------------------------------------------------- R1 -----
def classify_axis_source(prog, fi, e: ast.expr, depth=0) -> str:
    """'enum:<Name>' | 'file' | 'other:<text>'"""
    if depth > 5:
        return 'other:' + norm(e)
    if isinstance(e, ast.BoolOp) and isinstance(e.op, ast.Or):
        # nc_file.species or []
        return classify_axis_source(prog, fi, e.values[0], depth + 1)
    if isinstance(e, ast.IfExp):
        a = classify_axis_source(prog, fi, e.body, depth + 1)
        b = classify_axis_source(prog, fi, e.orelse, depth + 1)
        if a == b:
            return a
        # `values if values is not None else enum_type`
        t = norm(e.test)
        if t.endswith('is not None') and norm(e.body) in t:
            return f'opt({a}|{b})'
        return f'other:{norm(e)}'
    if isinstance(e, ast.Attribute) and e.attr == 'species':
        return 'file'
    if isinstance(e, ast.Name):
        r = prog.resolve_name(fi.module, e.id)
        if isinstance(r, ClassInfo) and any('Enum' in b for c in r.mro() for b in c.base_exprs):
            return f'enum:{r.name}'
        if e.id in fi.params:
            # the parameter that is recorded as the file's species list
            for c in calls_in(fi.node):
                rc = resolve_class_call(prog, fi, c)
                if rc is not None and rc.name == 'NcFiles':
                    v = kwarg(c, 'species')
                    if v is not None and norm(v) == e.id:
                        return 'file'
            cs = callers_of(prog, fi)
            idx = fi.params.index(e.id)
            off = 1 if fi.params[:1] in (['self'], ['cls']) else 0
            classes = set()
            for caller, call in cs:
                arg = None
                if len(call.args) > idx - off and idx - off >= 0:
                    arg = call.args[idx - off]
                if kwarg(call, e.id) is not None:
                    arg = kwarg(call, e.id)
                if arg is None:
                    d = _default_of(fi, e.id)
                    classes.add('default:' + (norm(d) if d is not None else '?'))
                else:
                    classes.add(classify_axis_source(prog, caller, arg, depth + 1))
            if len(classes) == 1:
                return classes.pop()
            if classes:
                return 'mixed:' + '|'.join(sorted(classes))
        d = single_def_value(fi.node, e.id)
        if d is not None:
            return classify_axis_source(prog, fi, d, depth + 1)
    if isinstance(e, ast.Call) and call_name(e) in ('list', 'tuple') and e.args:
        return classify_axis_source(prog, fi, e.args[0], depth + 1)
    return 'other:' + norm(e)


def _default_of(fi, name):
    a = fi.node.args
    pos = a.posonlyargs + a.args
    for arg, d in zip(pos[len(pos) - len(a.defaults):], a.defaults):
        if arg.arg == name:
            return d
    for arg, d in zip(a.kwonlyargs, a.kw_defaults):
        if arg.arg == name:
            return d
    return None


def _enumerates(fn_node):
    """(index var, elem var, source expr, node) for `for i, x in enumerate(S)` in loops and comprehensions."""
    out = []
    for n in ast.walk(fn_node):
        tgt = it = None
        if isinstance(n, ast.For):
            tgt, it = n.target, n.iter
        elif isinstance(n, ast.comprehension):
            tgt, it = n.target, n.iter
        if it is not None and isinstance(it, ast.Call) and call_name(it) == 'enumerate' and it.args \
                and isinstance(tgt, ast.Tuple) and len(tgt.elts) == 2 \
                and all(isinstance(x, ast.Name) for x in tgt.elts):
            out.append((tgt.elts[0].id, tgt.elts[1].id, it.args[0], it))
    return out


def rule_axis(ctx, m):
    prog = ctx.prog
    wr = m.func('TrajectoryStore._write_to_nc_var')
    rd = m.func('TrajectoryStore._read_from_nc_var')
    cd = m.func('_create_dimensions')
    ced = m.functions.get('_create_dimensions.<locals>.create_enum_dimension')
    if ced is None:
        ctx.undecided('C03-R1', cd, 'create_enum_dimension', 'helper not found')

    # dimension creation sites: calls create_enum_dimension(name, enum, values?)
    dim_src = {}
    for c in calls_in(cd.node):
        if call_name(c) == 'create_enum_dimension' and c.args and isinstance(c.args[0], ast.Constant):
            axis = c.args[0].value
            vals = c.args[2] if len(c.args) > 2 else kwarg(c, 'values')
            if vals is not None and not (isinstance(vals, ast.Constant) and vals.value is None):
                dim_src[axis] = (classify_axis_source(prog, cd, vals), c)
            else:
                dim_src[axis] = (classify_axis_source(prog, cd, c.args[1]), c)
    ctx.floor('C03-R1', len(dim_src), 2, 'enum dimensions created')
    # the helper must size and fill the dimension from the same iterable
    en = _enumerates(ced.node)
    sz = [c for c in calls_in(ced.node) if call_name(c).endswith('createDimension')]
    ok = len(en) == 1 and len(sz) == 1 and norm(en[0][2]).replace(' ', '') == \
        'valuesifvaluesisnotNoneelseenum_type'
    ok = ok and 'len(values) if values is not None else len(enum_type)' in norm(sz[0])
    ctx.ob('C03-R1', ced, 'dimension length and coordinate labels come from one iterable', ok,
           'len(values or enum) and enumerate(values or enum)' if ok else
           'dimension size and coordinate labels are taken from different iterables', nontrivial=False)

    def axis_of(src_class):
        if src_class == 'file' or src_class == 'enum:Species':
            return 'species'
        if src_class == 'enum:ThrustMode':
            return 'thrust_mode'
        return None

    sites = {'species': [], 'thrust_mode': []}
    for role, fi in (('writer', wr), ('reader', rd)):
        for ivar, evar, src, node in _enumerates(fi.node):
            cl = classify_axis_source(prog, fi, src)
            ax = axis_of(cl)
            if ax is None:
                # decide the axis from the element variable name as a fallback
                ax = 'species' if evar.startswith('sp') else ('thrust_mode' if evar.startswith('t') else None)
            if ax is None:
                ctx.undecided('C03-R1', fi, norm(node), f'cannot tell which axis {norm(src)} enumerates')
            sites[ax].append((role, fi, cl, node, ivar))
    ctx.floor('C03-R1/species', len(sites['species']), 4, 'species-axis enumerations in writer+reader')
    ctx.floor('C03-R1b/thrust', len(sites['thrust_mode']), 4, 'thrust-mode enumerations in writer+reader')
    for ax, rule in (('species', 'C03-R1'), ('thrust_mode', 'C03-R1b')):
        ref, refcall = dim_src.get(ax, (None, None))
        if ref is None:
            ctx.undecided(rule, cd, ax, 'dimension creation site not found')
        ctx.ob(rule, cd, f'{ax} axis created from [{ref}]', True, 'reference for writer and reader',
               line=refcall.lineno, nontrivial=False)
        for role, fi, cl, node, ivar in sites[ax]:
            ok = cl == ref
            ctx.ob(rule, fi, f'{role} positions {ax} by enumerate({norm(node.args[0])}) [{cl}]', ok,
                   f'same source as the dimension ({ref})' if ok else
                   (f'the {ax} axis of the file is laid out by [{ref}] but the {role} takes the position '
                    f'from [{cl}]: values land in / come from the wrong slot unless the two orders coincide'),
                   line=node.lineno)

    # R1c subscript order
    for role, fi in (('writer', wr), ('reader', rd)):
        sp_vars = {iv for r, f, cl, n, iv in sites['species'] if f is fi}
        tm_vars = {iv for r, f, cl, n, iv in sites['thrust_mode'] if f is fi}
        for n in ast.walk(fi.node):
            if isinstance(n, ast.Subscript) and isinstance(n.value, ast.Name) and n.value.id == 'var' \
                    and isinstance(n.slice, ast.Tuple):
                idx = [norm(x) for x in n.slice.elts]
                used_sp = [i for i, x in enumerate(idx) if x in sp_vars]
                used_tm = [i for i, x in enumerate(idx) if x in tm_vars]
                ok = idx[0] == 'index' and (not used_sp or used_sp == [1]) and \
                    (not used_tm or used_tm == [len(idx) - 1]) and \
                    (not (used_sp and used_tm) or used_sp[0] < used_tm[0])
                ctx.ob('C03-R1c', fi, f'{role} subscript var[{", ".join(idx)}]', ok,
                       'record, species, thrust-mode in dimension order' if ok else
                       'index variables are not in the order of the variable\'s dimensions', line=n.lineno)


# ---------------------------------------------------------------- R3 -----
def legal_combinations(ctx, prog):
    """Derive legal (POINT, SPECIES, THRUST_MODE) combinations from Dimensions.__init__."""
    dm = prog.module(DIMS)
    init = dm.func('Dimensions.__init__')
    conds = []
    for n in walk_no_nested(init.node):
        if isinstance(n, ast.If) and isinstance(first_stmt(n.body), ast.Raise):
            conds.append(n.test)
    ctx.floor('C03-R3/constraints', len(conds), 2, 'Dimensions.__init__ constraints')

    def ev(e, present):
        if isinstance(e, ast.BoolOp):
            vs = [ev(v, present) for v in e.values]
            return all(vs) if isinstance(e.op, ast.And) else any(vs)
        if isinstance(e, ast.UnaryOp) and isinstance(e.op, ast.Not):
            return not ev(e.operand, present)
        if isinstance(e, ast.Compare) and len(e.ops) == 1 and isinstance(e.left, ast.Attribute):
            d = e.left.attr
            if isinstance(e.ops[0], ast.In):
                return d in present
            if isinstance(e.ops[0], ast.NotIn):
                return d not in present
        raise ValueError(norm(e))

    legal = []
    for p, s, t in itertools.product([False, True], repeat=3):
        present = {'TRAJECTORY'} | ({'POINT'} if p else set()) | ({'SPECIES'} if s else set()) \
            | ({'THRUST_MODE'} if t else set())
        try:
            rejected = any(ev(c, present) for c in conds)
        except ValueError as e:
            ctx.undecided('C03-R3', init, str(e), 'constraint form not recognised')
        if not rejected:
            legal.append({'POINT': p, 'SPECIES': s, 'THRUST_MODE': t})
    return legal


_OPQ = object()   # "not a function of the dimension tests alone"
_CANON = ('SPECIES', 'THRUST_MODE', 'POINT')


def shape_label(combo) -> str:
    return ''.join(d[0] for d in _CANON if combo.get(d)) or 'scalar'


class Arm:
    """The statements a dispatching function executes for one assignment of its dimension tests and for no
    other reason (what every assignment executes alike - preamble, common tail - is left out)."""

    def __init__(self, body, lineno, indirect=False):
        self.body = body
        self.lineno = lineno
        self.indirect = indirect

    def walk(self):
        for s in self.body:
            yield from ast.walk(s)

    @property
    def kind(self) -> str:
        """'arm' (does something) | 'refuse' (raises unconditionally) | 'none' (falls through, nothing done)"""
        f = first_stmt(self.body)
        if f is None:
            return 'none'
        return 'refuse' if isinstance(f, ast.Raise) else 'arm'


class Dispatch:
    """Case analysis of a function over its `Dimension.X in <holder>.dimensions` tests, whatever the control-flow
    idiom: the body is partially evaluated for every truth assignment of the tests - `match` on a tuple / a single
    flag (first matching case wins, guards evaluated), if/elif/else chains, nested ifs, guard clauses with early
    return/raise, flags held in single-definition locals or tuple-unpacked, `not`/`and`/`or`/`==`/`!=`/`is` over
    them, comparison of a tuple of flags with a literal tuple, conditional expressions, a dict literal keyed by the
    flag tuple.  Conditions that do not depend on the tests alone stay in the arm as they are."""

    def __init__(self, fi):
        self.fi = fi
        tests = sorted((n for n in walk_no_nested(fi.node) if self.dim_of(n) is not None),
                       key=lambda n: (n.lineno, n.col_offset))
        self.dims = []
        holders = set()
        for t in tests:
            d = t.left.attr
            if d not in self.dims:
                self.dims.append(d)
            h = t.comparators[0]
            if isinstance(h, ast.Name):
                v = single_def_value(fi.node, h.id)
                h = v if v is not None and h.id not in fi.params else h
            holders.add(norm(h))
        if len(holders) > 1:
            raise ValueError(f'dimension tests on different objects: {sorted(holders)}')
        self.indirect = set()
        self._flagname = {}

    @staticmethod
    def dim_of(e):
        if isinstance(e, ast.Compare) and len(e.ops) == 1 and isinstance(e.ops[0], (ast.In, ast.NotIn)) \
                and isinstance(e.left, ast.Attribute) and norm(e.left.value) == 'Dimension':
            return e.left.attr, isinstance(e.ops[0], ast.In)
        return None

    # -- expressions ------------------------------------------------------
    def _local_value(self, name):
        if name in self.fi.params:
            return None
        v = single_def_value(self.fi.node, name)
        if v is None:
            tc = tuple_def_component(self.fi.node, name)
            if tc is not None and isinstance(tc[0], (ast.Tuple, ast.List)) and len(tc[0].elts) > tc[1] \
                    and not any(isinstance(x, ast.Starred) for x in tc[0].elts):
                v = tc[0].elts[tc[1]]
        return v

    def ev(self, e, env, depth=0):
        """True | False | tuple of such | _OPQ"""
        if depth > 8:
            return _OPQ
        if isinstance(e, ast.Constant) and isinstance(e.value, bool):
            return e.value
        d = self.dim_of(e)
        if d is not None:
            return env[d[0]] if d[1] else not env[d[0]]
        if isinstance(e, ast.Name):
            v = self._local_value(e.id)
            return _OPQ if v is None else self.ev(v, env, depth + 1)
        if isinstance(e, ast.NamedExpr):
            return self.ev(e.value, env, depth + 1)
        if isinstance(e, ast.UnaryOp) and isinstance(e.op, ast.Not):
            v = self.ev(e.operand, env, depth + 1)
            return (not v) if isinstance(v, bool) else _OPQ
        if isinstance(e, ast.BoolOp):
            vs = [self.ev(v, env, depth + 1) for v in e.values]
            if any(not isinstance(v, bool) and v is not _OPQ for v in vs):
                return _OPQ
            if isinstance(e.op, ast.And):
                return False if any(v is False for v in vs) else (True if all(v is True for v in vs) else _OPQ)
            return True if any(v is True for v in vs) else (False if all(v is False for v in vs) else _OPQ)
        if isinstance(e, (ast.Tuple, ast.List)):
            vs = [self.ev(v, env, depth + 1) for v in e.elts]
            return _OPQ if any(v is _OPQ for v in vs) else tuple(vs)
        if isinstance(e, ast.Compare) and len(e.ops) == 1 and isinstance(e.ops[0], (ast.Eq, ast.NotEq, ast.Is, ast.IsNot)):
            a, b = self.ev(e.left, env, depth + 1), self.ev(e.comparators[0], env, depth + 1)
            if a is _OPQ or b is _OPQ:
                return _OPQ
            return (a == b) if isinstance(e.ops[0], (ast.Eq, ast.Is)) else (a != b)
        if isinstance(e, ast.IfExp):
            t = self.ev(e.test, env, depth + 1)
            if isinstance(t, bool):
                return self.ev(e.body if t else e.orelse, env, depth + 1)
            a, b = self.ev(e.body, env, depth + 1), self.ev(e.orelse, env, depth + 1)
            return a if a is not _OPQ and a == b else _OPQ
        if isinstance(e, ast.Call) and call_name(e) == 'bool' and len(e.args) == 1 and not e.keywords:
            return self.ev(e.args[0], env, depth + 1)
        return _OPQ

    def depends(self, node) -> bool:
        """does the construct contain a dimension test (directly or through a flag local)?"""
        for n in ast.walk(node):
            if self.dim_of(n) is not None:
                return True
            if isinstance(n, ast.Name) and isinstance(n.ctx, ast.Load):
                if n.id not in self._flagname:
                    self._flagname[n.id] = False
                    v = self._local_value(n.id)
                    self._flagname[n.id] = v is not None and self.depends(v)
                if self._flagname[n.id]:
                    return True
        return False

    # -- patterns ---------------------------------------------------------
    def _matches(self, p, v) -> bool:
        if isinstance(p, ast.MatchAs):
            return True if p.pattern is None else self._matches(p.pattern, v)
        if isinstance(p, ast.MatchOr):
            return any(self._matches(q, v) for q in p.patterns)
        if isinstance(p, ast.MatchSingleton):
            return v is p.value
        if isinstance(p, ast.MatchValue) and isinstance(p.value, ast.Constant):
            return not isinstance(v, tuple) and v == p.value.value
        if isinstance(p, ast.MatchSequence) and not any(isinstance(q, ast.MatchStar) for q in p.patterns):
            return isinstance(v, tuple) and len(v) == len(p.patterns) and \
                all(self._matches(q, x) for q, x in zip(p.patterns, v))
        raise ValueError(f'case pattern form not recognised: {norm(p)}')

    # -- statements -------------------------------------------------------
    def spec(self, stmts, env, sel=None):
        """([(statement, line of the deciding construct)], every path ends in return/raise/continue/break?)"""
        out = []
        for s in stmts:
            if isinstance(s, ast.If):
                v = self.ev(s.test, env)
                if isinstance(v, bool):
                    o, t = self.spec(s.body if v else s.orelse, env, s.lineno)
                    out += o
                    if t:
                        return out, True
                    continue
                if not self.depends(s):
                    out.append((s, sel))
                    if _ends(s.body) and _ends(s.orelse):
                        return out, True
                    continue
                b, tb = self.spec(s.body, env, None)
                o, to = self.spec(s.orelse, env, None)
                c = ast.If(test=s.test, body=[x for x, _ in b] or [ast.Pass()], orelse=[x for x, _ in o])
                out.append((ast.copy_location(c, s), sel))
                if tb and to:
                    return out, True
            elif isinstance(s, ast.Match):
                v = self.ev(s.subject, env)
                if v is _OPQ:
                    if self.depends(s):
                        raise ValueError(f'match subject is not decided by the dimension tests: {norm(s.subject)}')
                    out.append((s, sel))
                    continue
                for c in s.cases:
                    if not self._matches(c.pattern, v):
                        continue
                    if c.guard is not None:
                        g = self.ev(c.guard, env)
                        if not isinstance(g, bool):
                            raise ValueError(f'case guard is not decided by the dimension tests: {norm(c.guard)}')
                        if not g:
                            continue
                    o, t = self.spec(c.body, env, c.pattern.lineno)
                    out += o
                    if t:
                        return out, True
                    break
            elif isinstance(s, (ast.Return, ast.Raise, ast.Continue, ast.Break)):
                out.append((s, sel))
                return out, True
            elif isinstance(s, (ast.For, ast.AsyncFor, ast.While, ast.With, ast.AsyncWith, ast.Try)) and self.depends(s):
                kw = {}
                term = False
                for f in ('body', 'orelse', 'finalbody'):
                    if hasattr(s, f):
                        o, t = self.spec(getattr(s, f), env, None)
                        kw[f] = [x for x, _ in o] or ([ast.Pass()] if f == 'body' else [])
                        term = term or (t and f == 'body' and isinstance(s, (ast.With, ast.AsyncWith)))
                c = type(s)(**{f: kw.get(f, getattr(s, f)) for f in s._fields})
                out.append((ast.copy_location(c, s), sel))
                if term:
                    return out, True
            else:
                r = self._table_lookup(s, env)
                if r == 'missing':
                    x = ast.Raise(exc=ast.Name(id='KeyError', ctx=ast.Load()), cause=None)
                    out.append((ast.copy_location(x, s), s.lineno))
                    return out, True
                if r == 'hit':
                    self.indirect.add(id(s))
                    out.append((s, s.lineno))
                else:
                    out.append((s, sel))
        return out, False

    def _table_lookup(self, s, env):
        """`{(False, False): f, ...}[(has_sp, has_tm)]` inside a simple statement: 'hit' | 'missing' | None"""
        for n in ast.walk(s):
            if not isinstance(n, ast.Subscript):
                continue
            tbl = n.value
            if isinstance(tbl, ast.Name):
                tbl = self._local_value(tbl.id)
            if not isinstance(tbl, ast.Dict) or not self.depends(n.slice):
                continue
            k = self.ev(n.slice, env)
            keys = [self.ev(x, env) if x is not None else _OPQ for x in tbl.keys]
            if k is _OPQ or any(x is _OPQ for x in keys):
                raise ValueError(f'dispatch table lookup not decided by the dimension tests: {norm(n)[:60]}')
            return 'hit' if k in keys else 'missing'
        return None

    def table(self):
        """{row (tuple over self.dims): Arm}"""
        runs = {}
        for row in itertools.product([False, True], repeat=len(self.dims)):
            runs[row] = self.spec(self.fi.node.body, dict(zip(self.dims, row)))[0]
        common = None
        for r in runs.values():
            ids = {id(s) for s, _ in r}
            common = ids if common is None else common & ids
        out = {}
        for row, r in runs.items():
            own = [(s, sel) for s, sel in r if id(s) not in common]
            line = next((sel or s.lineno for s, sel in own), self.fi.node.lineno)
            out[row] = Arm([s for s, _ in own], line, any(id(s) in self.indirect for s, _ in own))
        return out


def _ends(body) -> bool:
    """every path through the block leaves it by return/raise/continue/break (syntactic, conservative)"""
    l = last_stmt(body)
    if isinstance(l, (ast.Return, ast.Raise, ast.Continue, ast.Break)):
        return True
    if isinstance(l, ast.If):
        return bool(l.orelse) and _ends(l.body) and _ends(l.orelse)
    if isinstance(l, (ast.With, ast.AsyncWith)):
        return _ends(l.body)
    return False


def rule_tables(ctx, m, legal):
    prog = ctx.prog
    fs = prog.module(FS)
    tables = [
        fs.func('FieldMetadata.empty'),
        fs.func('FieldMetadata.convert_in'),
        m.func('TrajectoryStore._write_to_nc_var'),
        m.func('TrajectoryStore._read_from_nc_var'),
    ]
    ntab = 0
    arms = {}
    for fi in tables:
        try:
            dp = Dispatch(fi)
            if not dp.dims:
                raise ValueError('no `Dimension.X in …` test decides what is done (dispatch idiom changed)')
            table = dp.table()
        except ValueError as e:
            ctx.undecided('C03-R3', fi, 'dimension dispatch', str(e))
        dims = dp.dims
        ntab += 1
        covered = {row: a for row, a in table.items() if a.kind == 'arm'}
        ctx.floor(f'C03-R3/{fi.name}', len({id(a.body[0]) for a in covered.values()}), 2, 'distinct arms')
        arms[fi.qualname] = (dims, covered, table)
        for combo in legal:
            row = tuple(combo[d] for d in dims)
            a = table[row]
            ok = a.kind == 'arm'
            ctx.ob('C03-R3', fi, f'arm for {"".join(k[0] for k, v in combo.items() if v) or "scalar"} '
                   f'({", ".join(f"{d}={combo[d]}" for d in dims)})', ok,
                   f'arm at line {a.lineno}' if ok else
                   ('a legal field shape has no arm: values of that shape ' +
                    ('are refused (they reach the raise at line %d)' % a.lineno if a.kind == 'refuse' else
                     'fall through and nothing is done for them')),
                   line=a.lineno)
        illegal_rows = set(table) - {tuple(c[d] for d in dims) for c in legal}
        if illegal_rows:
            silent = sorted(r for r in illegal_rows if table[r].kind == 'none')
            ctx.ob('C03-R3', fi, 'combinations outside the legal ones do not pass silently', not silent,
                   f'{sum(table[r].kind == "refuse" for r in illegal_rows)} of {len(illegal_rows)} raise' if not silent else
                   f'{[dict(zip(dims, r)) for r in silent]} fall through: no arm and no raise', nontrivial=False)
    ctx.floor('C03-R3', ntab, 4, 'dimension case tables')
    # positive control: the four equivalent spellings of one dispatch give one table, and a dropped case is seen
    ctx.control('C03-R3', _dispatch_control(), 'embedded dispatch spellings (match / elif / guard clauses / nested) agree; '
                'a missing case is seen')
    return arms


_CONTROL_SRC = """
def a(self, f, v):
    match (Dimension.S in f.dimensions, Dimension.T in f.dimensions):
        case (False, False):
            return 0
        case (False, True):
            return 1
        case (True, False):
            return 2
        case _:
            raise ValueError()
def b(self, f, v):
    s = Dimension.S in f.dimensions
    t = Dimension.T in f.dimensions
    if not s and not t:
        return 0
    elif not s:
        return 1
    elif not t:
        return 2
    else:
        raise ValueError()
def c(self, f, v):
    s, t = Dimension.S in f.dimensions, Dimension.T in f.dimensions
    if not s:
        if not t:
            return 0
        return 1
    if t:
        raise ValueError()
    return 2
def d(self, f, v):
    key = (Dimension.S in f.dimensions, Dimension.T in f.dimensions)
    if key == (True, True):
        raise ValueError()
    if Dimension.S not in f.dimensions:
        return 1 if Dimension.T in f.dimensions else 0
    return 2
def e(self, f, v):
    s = Dimension.S in f.dimensions
    t = Dimension.T in f.dimensions
    if not s and not t:
        return 0
    elif not t:
        return 2
    elif s:
        raise ValueError()
"""


def _dispatch_control() -> bool:
    class _F:
        def __init__(self, node):
            self.node = node
            self.params = [a.arg for a in node.args.args]
    mod = ast.parse(_CONTROL_SRC)
    for x in ast.walk(mod):
        for ch in ast.iter_child_nodes(x):
            ch._parent = x
    sig = {}
    for f in mod.body:
        t = Dispatch(_F(f)).table()
        sig[f.name] = {row: (a.kind, norm(a.body[0]) if a.body else '') for row, a in t.items()}
    same = sig['a'] == sig['b'] == sig['c']
    d_ok = {r: k for r, (k, _) in sig['d'].items()} == {r: k for r, (k, _) in sig['a'].items()}
    e_gap = sig['e'][(False, True)][0] == 'none' and sig['e'][(True, True)][0] == 'refuse'
    return same and d_ok and e_gap and sig['a'][(True, True)][0] == 'refuse' and sig['a'][(True, False)][0] == 'arm'


# ---------------------------------------------------------------- R2 -----
def rule_absent(ctx, m, arms):
    wr = m.func('TrajectoryStore._write_to_nc_var')
    rd = m.func('TrajectoryStore._read_from_nc_var')
    wdims, wcov, _ = arms[wr.qualname]
    rdims, rcov, _ = arms[rd.qualname]
    # writer: None handling
    none_if = [n for n in wr.node.body if isinstance(n, ast.If) and norm(n.test) in ('val is None', 'None is val')]
    okn = bool(none_if) and any(isinstance(s, ast.Return) for s in none_if[0].body) and \
        any(isinstance(s, ast.If) and 'required' in norm(s.test) and isinstance(first_stmt(s.body), ast.Raise)
            for s in none_if[0].body)
    ctx.ob('C03-R2', wr, 'unset value: refused if required, else nothing written', okn,
           '`if val is None: if field.required: raise; return`' if okn else
           'the writer no longer separates unset required from unset optional values')
    for row, case in sorted(rcov.items(), key=lambda kv: kv[0]):
        combo = dict(zip(rdims, row))
        wrow = tuple(combo[d] for d in wdims)
        wcase = wcov.get(wrow)
        if wcase is None:
            continue
        if any(combo[d] for d in ('POINT', 'THRUST_MODE')) and combo.get('POINT') and combo.get('THRUST_MODE'):
            continue
        label = shape_label(combo)
        if case.indirect or wcase.indirect:
            ctx.undecided('C03-R2', rd, f'arm {label}', 'the arm is reached through a dispatch table of callables; its body is '
                          'not in this function')
        # R2b: per-point cells are variable-length: a cell that was never written reads back as an empty array, and the
        # reader uses emptiness as its "never written" marker (`all(cell == fill)` is vacuously true for an empty cell,
        # `len(v) > 0` filters species).  That marker must not be met by a value that can legitimately be stored: it is,
        # whenever a trajectory may have zero points.
        if combo.get('POINT') and not combo.get('THRUST_MODE'):
            arm_txt = ' '.join(norm(s_) for s_ in case.body)
            vacuous = [x for s_ in case.body for x in ast.walk(s_) if isinstance(x, ast.Call) and call_name(x) == 'all'
                       and x.args and isinstance(x.args[0], ast.Compare)]
            empt = [x for s_ in case.body for x in ast.walk(s_) if isinstance(x, ast.Compare) and norm(x).startswith('len(')
                    and norm(x).endswith(('> 0', '!= 0', '>= 1'))]
            uses_emptiness = bool(vacuous or empt)
            add = m.func('TrajectoryStore.add')
            zero_refused = any(isinstance(r, ast.Raise) and any(
                any(k in norm(t) for k in ('len(trajectory) == 0', 'len(trajectory) < 1', 'not len(trajectory)', 'npoints == 0',
                                           'npoints < 1')) for t, pol, _ in guards_of(r)) for r in walk_no_nested(add.node))
            ok = not uses_emptiness or zero_refused
            marker = norm(vacuous[0])[:50] if vacuous else (norm(empt[0]) if empt else '?')
            ctx.ob('C03-R2', rd, f'reader arm {label}: the never-written marker is not met by a storable value', ok,
                   ('zero-point trajectories are refused by add' if zero_refused else 'the marker is not emptiness') if ok else
                   (f'the marker is emptiness (`{marker}`), an empty per-point array is what a zero-point trajectory stores, and `add` accepts zero-point trajectories: '
                    'its arrays read back as unset (None)' + (' and its species are dropped' if combo['SPECIES'] else
                                                               '; for a required field _load_trajectory then fails with TypeError (len(None))')),
                   line=case.lineno)
        # can the writer skip a cell in this arm?
        w_skips = [n for n in wcase.walk() if isinstance(n, ast.If) and
                   any(isinstance(o, ast.In) for c in ast.walk(n.test) if isinstance(c, ast.Compare) for o in c.ops)]
        arm_src = ' '.join(norm(s) for s in case.body)
        if combo['SPECIES']:
            if not w_skips:
                ctx.ob('C03-R2', rd, f'reader arm {label}: writer writes every cell', True,
                       'no skip in the writer arm, nothing to filter', line=case.lineno, nontrivial=False)
                continue
            comps = [n for s in case.body for n in ast.walk(s)
                     if isinstance(n, (ast.DictComp, ast.ListComp, ast.GeneratorExp)) and
                     any(g.ifs for g in n.generators)]
            filt = [norm(i) for n in comps for g in n.generators for i in g.ifs]
            recognised = [f for f in filt if any(k in f for k in ('fill', 'len(', '.size', 'mask', 'isnan'))]
            sp_filter = False
            for n in comps:
                if isinstance(n, ast.DictComp) and any(g.ifs for g in n.generators):
                    # the outermost species mapping must be the filtered one
                    par = getattr(n, '_parent', None)
                    while par is not None and not isinstance(par, (ast.Call, ast.stmt)):
                        par = getattr(par, '_parent', None)
                    if isinstance(par, ast.Call) and 'SpeciesValues' in norm(par.func):
                        sp_filter = True
            ok = bool(recognised) and sp_filter
            ctx.ob('C03-R2', rd, f'reader arm {label}: never-written species are dropped', ok,
                   f'species mapping filtered by {recognised}' if ok else
                   ('the writer skips species a value does not contain (`if sp in val`) but this reader arm '
                    'rebuilds every species of the file for every field: species are invented on read-back'),
                   line=case.lineno)
        elif not combo['THRUST_MODE']:
            ok = 'get_fill_value' in arm_src and 'return None' in arm_src
            ctx.ob('C03-R2', rd, f'reader arm {label}: unset value reads back as None', ok,
                   'fill value → None' if ok else
                   'an optional value that was never written does not read back as unset',
                   line=case.lineno)


# ---------------------------------------------------------------- R4 -----
def rule_digest(ctx, m):
    prog = ctx.prog
    fs = prog.module(FS)
    fm = fs.cls('FieldMetadata')
    di = fs.func('FieldMetadata.digest_info')
    fields = list(fm.annotated_fields())
    ctx.floor('C03-R4', len(fields), 6, 'FieldMetadata fields')
    used = {n.attr for n in ast.walk(di.node) if isinstance(n, ast.Attribute) and norm(n.value) == 'self'}
    for f in fields:
        ok = f in used
        ctx.ob('C03-R4', di, f'field `{f}` enters the digest', ok,
               'referenced by digest_info' if ok else
               f'metadata attribute `{f}` is not part of the digest: a file written under one definition '
               'opens under another', line=di.node.lineno)
    dg = fs.func('FieldSet.digest')
    src = ' '.join(norm(s) for s in dg.node.body)
    ok = 'sorted(' in src and 'digest_info' in src and 'fieldset_name' in src
    ctx.ob('C03-R4', dg, 'digest covers name and every field in sorted order', ok,
           'name + sorted(field names) + digest_info' if ok else 'digest is order-dependent or incomplete')
    # attribute round trip
    cn = m.func('TrajectoryStore._create_nc_file')
    written = set()
    for t, st, how in stores_to(cn.node):
        if isinstance(t, ast.Attribute) and norm(t.value) == 'v':
            written.add(t.attr)
    fg = fs.func('FieldSet.from_netcdf_group')
    read = set()
    for c in calls_in(fg.node):
        if call_name(c).endswith('getncattr') and c.args and isinstance(c.args[0], ast.Constant):
            read.add(c.args[0].value)
    ok = written == read and written >= {'description', 'units', 'required'}
    ctx.ob('C03-R4', fg, f'variable attributes written {sorted(written)} = read {sorted(read)}', ok,
           'creation and reconstruction agree' if ok else
           'attributes written at creation and read by from_netcdf_group differ')
    req_w = [st for t, st, how in stores_to(cn.node) if isinstance(t, ast.Attribute) and t.attr == 'required']
    req_r = [k for c in calls_in(fg.node) for k in [kwarg(c, 'required')] if k is not None]
    ok = bool(req_w) and bool(req_r) and "'true' if" in norm(req_w[0].value) and "== 'true'" in norm(req_r[0])
    ctx.ob('C03-R4', fg, 'required flag encoding round-trips', ok,
           "'true'/'false' written, == 'true' read" if ok else 'required flag encoded and decoded differently',
           nontrivial=False)


# ---------------------------------------------------------------- R5 -----
def rule_hash_gate(ctx, m):
    for qn in ('TrajectoryStore._open_nc_file', 'TrajectoryStore._open_merged_store'):
        fi = m.func(qn)
        g = CFG(fi.node)
        dom = g.dominators(edge_ok=lambda a, b, lab: lab != 'e')
        gate = None
        for n in g.nodes:
            if n.kind == 'stmt' and isinstance(n.stmt, ast.Raise):
                gs = guards_of(n.stmt)
                txt = [(norm(t), pol) for t, pol, _ in gs]
                def is_gate(t):
                    return any(isinstance(x, ast.Compare) and isinstance(x.ops[0], ast.NotEq) and
                               any(isinstance(y, ast.Attribute) and y.attr == 'digest'
                                   for y in [x.left] + x.comparators) for x in ast.walk(t))
                if any(is_gate(t) and pol for t, pol, _ in gs):
                    extra = [norm(t) for t, pol, _ in gs if not is_gate(t)]
                    okx = all(t == 'not self.force_fieldset_matches' for t in extra)
                    loops = [a for a in ancestors(n.stmt) if isinstance(a, ast.For)]
                    gate = (n, okx, loops)
        if gate is None:
            ctx.ob('C03-R5', fi, 'digest comparison refuses a mismatch', False,
                   'no raise guarded by a digest mismatch: any file opens under any definition')
            continue
        n, okx, loops = gate
        rets = [r for r in g.nodes if r.kind == 'stmt' and isinstance(r.stmt, ast.Return)
                and r.stmt.value is not None and 'NcFiles' in norm(r.stmt.value)]
        heads = [x for lp in loops for x in g.nodes_of(lp)]
        ok = okx and bool(rets) and all(any(h in dom[r.id] for h in heads) for r in rets)
        ctx.ob('C03-R5', fi, 'NcFiles returned only after the digest gate', ok,
               'the check loop dominates the return; only force_fieldset_matches bypasses it' if ok else
               'a path returns the file description without passing the digest comparison', line=n.line)
        lp = loops[0] if loops else None
        ok = lp is not None and 'zip(fieldset_names, fieldset_hashes)' in norm(lp.iter)
        ctx.ob('C03-R5', fi, 'every stored field-set hash is compared', ok,
               norm(lp.iter) if ok else 'the gate does not visit every (name, hash) pair of the file',
               line=(lp.lineno if lp else fi.node.lineno), nontrivial=False)


# ---------------------------------------------------------------- R6 -----
def rule_index_use(ctx, m):
    wr = m.func('TrajectoryStore._write_to_nc_var')
    rd = m.func('TrajectoryStore._read_from_nc_var')
    for role, fi in (('writer', wr), ('reader', rd)):
        bad = []
        n_sub = 0
        for n in ast.walk(fi.node):
            if isinstance(n, ast.Subscript) and isinstance(n.value, ast.Name) and n.value.id == 'var':
                n_sub += 1
                first = n.slice.elts[0] if isinstance(n.slice, ast.Tuple) else n.slice
                if norm(first) != 'index':
                    bad.append(n)
        ctx.floor(f'C03-R6/{role}', n_sub, 4, f'{role} variable subscripts')
        ctx.ob('C03-R6', fi, f'{role}: {n_sub} variable accesses all at [index, …]', not bad,
               'record index used as given' if not bad else
               f'{role} accesses record {norm(bad[0])} instead of the record index it was given',
               line=(bad[0].lineno if bad else fi.node.lineno))
    wd = m.func('TrajectoryStore._write_data')
    lt = m.func('TrajectoryStore._load_trajectory')
    for fi, what in ((wd, 'for name in group.variables'), (lt, 'for name, field in fs.items()')):
        loops = [n for n in walk_no_nested(fi.node) if isinstance(n, ast.For) and
                 f'for {norm(n.target).strip("()")} in {norm(n.iter)}' == what]
        ok = bool(loops) and not any(isinstance(s, ast.Continue) for lp in loops for s in ast.walk(lp))
        ctx.ob('C03-R6', fi, f'`{what}` visits every field', ok,
               'no filter / continue in the field loop' if ok else 'some fields are skipped by the field loop',
               line=(loops[0].lineno if loops else fi.node.lineno), nontrivial=False)
    # value written is the attribute of the same name
    vals = [st for t, st, how in stores_to(wd.node) if isinstance(t, ast.Name) and t.id == 'val'
            and isinstance(st.value, ast.Call)]
    ok = bool(vals) and all(call_name(s.value) == 'getattr' and norm(s.value.args[1]) == 'name' for s in vals)
    ctx.ob('C03-R6', wd, 'value written for a variable is the attribute of the same name', ok,
           'getattr(traj|data, name)' if ok else 'the value written does not come from the field of the same name')
    sets = [c for c in calls_in(lt.node) if call_name(c) == 'setattr']
    ok = bool(sets) and norm(sets[0].args[1]) == 'k' and norm(sets[0].args[2]) == 'v'
    st_data = [st for t, st, how in stores_to(lt.node) if isinstance(t, ast.Subscript) and norm(t.value) == 'data']
    ok = ok and bool(st_data) and norm(st_data[0].targets[0].slice) == 'name' and norm(st_data[0].value) == 'val'
    ctx.ob('C03-R6', lt, 'value read for a variable is assigned to the field of the same name', ok,
           'data[name] = val; setattr(traj, k, v)' if ok else 'read values are assigned under a different name')
    # ... for every field read, whatever its value (None is a value: an unset optional field)
    for c in sets:
        lp = next((a for a in ancestors(c) if isinstance(a, (ast.For, ast.While))), None)
        inner = [t for t, pol, o in guards_of(stmt_of(c)) if lp is not None and any(a is lp for a in ancestors(o))]
        esc = [x for x in (ast.walk(lp) if lp is not None else []) if isinstance(x, (ast.Continue, ast.Break))]
        ok = lp is not None and not inner and not esc
        ctx.ob('C03-R6', lt, f'{norm(c)} runs for every value read', ok,
               'unconditional in the loop over the values read' if ok else
               (f'the assignment is skipped for some values ({norm(inner[0]) if inner else "continue/break in the loop"}): the '
                'freshly constructed trajectory keeps the field\'s declared default there, so an optional field that was '
                'stored unset (None) reads back as its default instead of None'), line=c.lineno)


# ---------------------------------------------------------------- R1d ----
def _base_name(e):
    """X for `X.species`, `X.species or []`, `X.groups[..][..]`, ..."""
    if isinstance(e, ast.BoolOp):
        e = e.values[0]
    while isinstance(e, (ast.Subscript, ast.Attribute)):
        if isinstance(e, ast.Attribute) and isinstance(e.value, ast.Name):
            return e.value.id, e.attr
        e = e.value
    return None, None


def rule_same_file(ctx, m):
    """the species list handed to the writer / reader belongs to the very file
    object whose variable is written / read"""
    for caller_q, callee, sp_pos in (('TrajectoryStore._write_data', '_write_to_nc_var', 5),
                                     ('TrajectoryStore._load_trajectory', '_read_from_nc_var', 4)):
        fi = m.func(caller_q)
        calls = [c for c in calls_in(fi.node) if call_name(c).endswith(callee)]
        ctx.floor(f'C03-R1d/{callee}', len(calls), 1, f'call of {callee}')
        for c in calls:
            sp = c.args[sp_pos] if len(c.args) > sp_pos else kwarg(c, 'species')
            if sp is None:
                ctx.ob('C03-R1d', fi, f'{callee}: no species list passed', False,
                       'the file\'s own species list is not handed to the writer/reader', line=c.lineno)
                continue
            var = c.args[0]
            # species side
            spx = sp
            if isinstance(spx, ast.Name):
                d = single_def_value(fi.node, spx.id)
                spx = d if d is not None else spx
            sb, sattr = _base_name(spx) if spx is not None else (None, None)
            # variable side: var <- group.variables[...] ; group <- X.groups[...]
            vx = var
            if isinstance(vx, ast.Name):
                d = single_def_value(fi.node, vx.id)
                vx = d if d is not None else vx
            gb, _ = _base_name(vx)
            if gb is not None:
                gd = single_def_value(fi.node, gb)
                if gd is not None:
                    gb2, gattr = _base_name(gd)
                    if gattr == 'groups':
                        gb = gb2
            ok = sb is not None and sattr == 'species' and sb == gb
            ctx.ob('C03-R1d', fi, f'{callee}: variable from `{gb}`, species list `{norm(sp)[:50]}`', ok,
                   'species positions come from the file object that owns the variable' if ok else
                   (f'the species list passed to {callee} is `{norm(spx)[:70]}`, not the `.species` of `{gb}`, the file '
                    'that owns the variable: in a store split over base and associated files the two lists differ '
                    '(after reopening) and species values are written to / read from the wrong slots or dropped'),
                   line=c.lineno)


# ---------------------------------------------------------------- R7 -----
def rule_accumulators(ctx, m):
    """lost accumulation: a container initialised empty before a loop, used after
    it, but *rebound* inside the loop by an expression that does not mention it"""
    n = 0
    for fi in m.functions.values():
        for lp in [x for x in walk_no_nested(fi.node) if isinstance(x, ast.For)]:
            blk = getattr(lp, '_parent', None)
            for t, st, how in stores_to(lp):
                if not (isinstance(t, ast.Name) and how in ('assign', 'ann')):
                    continue
                name = t.id
                if any(isinstance(x, ast.Name) and x.id == name for x in ast.walk(st.value)):
                    continue
                inits = [s for tt, s, h in stores_to(fi.node) if isinstance(tt, ast.Name) and tt.id == name
                         and s.lineno < lp.lineno and h in ('assign', 'ann') and _is_empty_container(getattr(s, 'value', None))
                         and not any(a is lp for a in ancestors(s))]
                if not inits:
                    continue
                init = inits[-1]
                # init and loop in the same block (or loop nested right under it), accumulator used after the loop
                used_after = any(isinstance(x, ast.Name) and x.id == name and isinstance(x.ctx, ast.Load)
                                 and x.lineno > (lp.end_lineno or lp.lineno) for x in walk_no_nested(fi.node))
                # the rebinding must depend on the loop (otherwise it is just a reset)
                loopvars = {x.id for x in ast.walk(lp.target) if isinstance(x, ast.Name)}
                inner_defs = {tt.id for tt, s2, h2 in stores_to(lp) if isinstance(tt, ast.Name)}
                depends = any(isinstance(x, ast.Name) and x.id in (loopvars | inner_defs) for x in ast.walk(st.value))
                # a reset at the top of an *inner* per-item block followed by accumulation in a deeper loop is fine
                nested_accum = any(isinstance(x, ast.Call) and isinstance(x.func, ast.Attribute) and norm(x.func.value) == name
                                   and x.func.attr in ('update', 'add', 'append', 'extend') and x.lineno > st.lineno
                                   for x in ast.walk(lp)) and False
                if used_after and depends and init.lineno < lp.lineno:
                    n += 1
                    ctx.ob('C03-R7', fi, f'`{name}` initialised empty (line {init.lineno}) then rebound in loop: {norm(st)[:60]}',
                           False, (f'`{name}` is meant to accumulate over `for {norm(lp.target)} in {norm(lp.iter)}` but is '
                                   'overwritten on every iteration: only the last iteration contributes (species of earlier '
                                   'field sets are missing from the file and silently not written)'), line=st.lineno)
    ctx.ob('C03-R7', (m.relpath, '<module>'), f'{len(m.functions)} functions scanned for lost accumulations', True,
           f'{n} found', nontrivial=False)
    ctl = ast.parse('def f(xs):\n s = set()\n for x in xs:\n  s = {y for y in x}\n return s')
    f = ctl.body[0]
    for a in ast.walk(f):
        for ch in ast.iter_child_nodes(a):
            ch._parent = a
    lp = f.body[1]
    hit = any(isinstance(t, ast.Name) and t.id == 's' for t, st, how in stores_to(lp))
    ctx.control('C03-R7', hit and _is_empty_container(f.body[0].value), 'embedded lost-accumulation example is recognised')


def _is_empty_container(v):
    if v is None:
        return False
    if isinstance(v, (ast.List, ast.Set, ast.Tuple)) and not v.elts:
        return True
    if isinstance(v, ast.Dict) and not v.keys:
        return True
    if isinstance(v, ast.Call) and call_name(v) in ('set', 'list', 'dict') and not v.args:
        return True
    return False


def rule_cast(ctx):
    """R8: every value accepted into a field is brought to the field's own data
    type (what is stored is what the NetCDF variable will hold): each return of
    FieldMetadata._cast derives from `.astype(self.field_type, …)`."""
    fs = ctx.prog.module(FS)
    fi = fs.func('FieldMetadata._cast')
    rets = [n for n in walk_no_nested(fi.node) if isinstance(n, ast.Return) and n.value is not None]
    ctx.floor('C03-R8', len(rets), 1, 'returns of _cast')
    for r in rets:
        v = r.value
        ok = False
        if isinstance(v, ast.Name):
            defs = [st for t, st, how in stores_to(fi.node) if isinstance(t, ast.Name) and t.id == v.id]
            srcs = ' '.join(norm(d.value) for d in defs)
            ok = bool(defs) and 'astype(self.field_type' in srcs and all(
                'astype(self.field_type' in norm(d.value) or f'{v.id}.item()' in norm(d.value) for d in defs)
        elif 'astype(self.field_type' in norm(v):
            ok = True
        ctx.ob('C03-R8', fi, f'return {norm(v)[:50]}', ok,
               'value cast to the field type' if ok else
               ('a value is returned without being cast to the field\'s data type: for a field narrower than a Python '
                'float (float32, float16) the trajectory keeps the double and reads back a different, rounded value'),
               line=r.lineno)
    # ... and every value that convert_in accepts goes through _cast (which also gives the container its own
    # copy: astype copies unless told otherwise)
    ci = fs.func('FieldMetadata.convert_in')
    crets = [n for n in walk_no_nested(ci.node) if isinstance(n, ast.Return)]
    ctx.floor('C03-R8/convert_in', len(crets), 7, 'returns of convert_in')
    for r in crets:
        v = r.value
        ok = v is None or (isinstance(v, ast.Constant) and v.value is None) or 'self._cast(' in norm(v)
        ctx.ob('C03-R8', ci, f'return {norm(v)[:50] if v is not None else ""}', ok,
               'None (unset optional) or built from self._cast(…) of the incoming data' if ok else
               ('the incoming object itself is stored: it is neither brought to the field type nor copied, so the trajectory '
                'shares the caller\'s array and changes when the caller reuses its buffer'), line=r.lineno)
    for c in calls_in(fi.node):
        if isinstance(c.func, ast.Attribute) and c.func.attr == 'astype':
            cp = kwarg(c, 'copy')
            ok = cp is None or (isinstance(cp, ast.Constant) and cp.value is True)
            ctx.ob('C03-R8', fi, f'{norm(c)[:60]} returns a new array', ok,
                   'astype copies by default' if ok else 'copy=False lets the stored array alias the caller\'s', line=c.lineno,
                   nontrivial=False)
    cc = [c for c in calls_in(fi.node) if call_name(c) == 'np.can_cast']
    ok = bool(cc) and any(k.arg == 'casting' and norm(k.value) == "'same_kind'" for k in cc[0].keywords)
    ctx.ob('C03-R8', fi, 'unsafe casts refused', ok, "np.can_cast(…, casting='same_kind') before casting" if ok else
           'the safety check of the cast changed', nontrivial=False)


# ---------------------------------------------------------------- R9 -----
_WRAPPERS = ('sorted', 'list', 'set', 'tuple', 'frozenset', 'reversed', 'iter', 'enumerate')
_ACCUM = ('update', 'add', 'extend', 'append', 'union')
_FILTERS = ('filter', 'islice', 'itertools.islice', 'takewhile', 'itertools.takewhile', 'dropwhile',
            'itertools.dropwhile', 'compress', 'itertools.compress', 'random.sample', 'sample', 'filterfalse',
            'itertools.filterfalse')


def _arg_for_param(fi, call, pname):
    params = fi.params
    if pname not in params:
        return None
    k = kwarg(call, pname)
    if k is not None:
        return k
    idx = params.index(pname) - (1 if params[:1] in (['self'], ['cls']) and isinstance(call.func, ast.Attribute) else 0)
    if 0 <= idx < len(call.args) and not any(isinstance(x, ast.Starred) for x in call.args[:idx + 1]):
        return call.args[idx]
    return None


class _Site:
    """one place where members enter a collection: `acc.update(X)` / `acc.add(x)` / `acc |= X` under loops, or a
    comprehension"""

    def __init__(self, fi, node, contributed, inits):
        self.fi, self.node, self.contributed, self.inits = fi, node, contributed, inits


def _members_of(prog, fi, e, written_cls, depth=0, seen=None):
    """Trace where the members of collection expression e come from: list of _Site | ('file', node) |
    ('unknown', fi, node)."""
    seen = seen if seen is not None else set()
    if depth > 8 or (fi.qualname, id(e)) in seen:
        return []
    seen.add((fi.qualname, id(e)))
    if isinstance(e, ast.BoolOp) and isinstance(e.op, ast.Or):      # X or []
        return [x for v in e.values for x in _members_of(prog, fi, v, written_cls, depth + 1, seen)]
    if isinstance(e, (ast.List, ast.Tuple, ast.Set)) and not e.elts:
        return []
    if isinstance(e, ast.Call) and call_name(e) in ('set', 'list') and not e.args:
        return []
    if isinstance(e, ast.Constant) and e.value is None:
        return []
    if isinstance(e, ast.Call) and call_name(e) in _WRAPPERS and e.args:
        return _members_of(prog, fi, e.args[0], written_cls, depth + 1, seen)
    if isinstance(e, ast.BinOp) and isinstance(e.op, (ast.BitOr, ast.Add)):
        return _members_of(prog, fi, e.left, written_cls, depth + 1, seen) + \
            _members_of(prog, fi, e.right, written_cls, depth + 1, seen)
    if isinstance(e, (ast.SetComp, ast.ListComp, ast.GeneratorExp)):
        return [_Site(fi, e, e.elt, [])]
    if isinstance(e, ast.Name):
        if e.id in fi.params:
            out = []
            for caller, call in callers_of(prog, fi):
                arg = _arg_for_param(fi, call, e.id)
                if arg is None:
                    d = _default_of(fi, e.id)
                    if d is None:
                        out.append(('unknown', caller, call))
                    else:
                        out += _members_of(prog, fi, d, written_cls, depth + 1, seen)
                else:
                    out += _members_of(prog, caller, arg, written_cls, depth + 1, seen)
            return out
        out = []
        defs = local_defs(fi.node, e.id)
        inits = [d for d in defs if isinstance(d, (ast.Assign, ast.AnnAssign))]
        for d in defs:
            if isinstance(d, (ast.Assign, ast.AnnAssign)) and d.value is not None:
                if isinstance(d, ast.Assign) and not (len(d.targets) == 1 and isinstance(d.targets[0], ast.Name)):
                    out.append(('unknown', fi, d))
                    continue
                # `acc = acc | X` is an accumulation, not an initialisation
                if any(isinstance(x, ast.Name) and x.id == e.id for x in ast.walk(d.value)):
                    rest = [v for v in (getattr(d.value, 'left', None), getattr(d.value, 'right', None),
                                        *(getattr(d.value, 'args', []) or []))
                            if v is not None and not (isinstance(v, ast.Name) and v.id == e.id)]
                    out += [_Site(fi, d, v, [x for x in inits if x is not d]) for v in rest] or [('unknown', fi, d)]
                    continue
                out += _members_of(prog, fi, d.value, written_cls, depth + 1, seen)
            elif isinstance(d, ast.AugAssign):
                out.append(_Site(fi, d, d.value, inits))
            elif not isinstance(d, (ast.Assign, ast.AnnAssign)):
                out.append(('unknown', fi, d))
        for c in calls_in(fi.node):
            if isinstance(c.func, ast.Attribute) and isinstance(c.func.value, ast.Name) and c.func.value.id == e.id \
                    and c.func.attr in _ACCUM and isinstance(parent(c), ast.Expr):
                for a_ in c.args:
                    out.append(_Site(fi, c, a_.value if isinstance(a_, ast.Starred) else a_, inits))
        return out
    if isinstance(e, ast.Attribute):
        owner = expr_class(prog, fi, e.value)
        owners = [owner] if owner is not None else ([written_cls] if written_cls is not None else [])
        for c in owners:
            meth = c.find_method(e.attr)
            if meth is not None and any('property' in d for d in meth.decorators()):
                out = []
                for r in walk_no_nested(meth.node):
                    if isinstance(r, ast.Return) and r.value is not None:
                        out += _members_of(prog, meth, r.value, written_cls, depth + 1, seen)
                return out
            if e.attr in c.all_fields():
                return [('file', e)]
        if classify_axis_source(prog, fi, e) == 'file' and owner is None and written_cls is None:
            return [('file', e)]
        return [('unknown', fi, e)]
    if isinstance(e, ast.Call):
        callee = resolve_call(prog, fi, e)
        if callee is not None:
            out = []
            for r in walk_no_nested(callee.node):
                if isinstance(r, ast.Return) and r.value is not None:
                    out += _members_of(prog, callee, r.value, written_cls, depth + 1, seen)
            return out
    return [('unknown', fi, e)]


def _block_of(par, child):
    for f in ('body', 'orelse', 'finalbody'):
        blk = getattr(par, f, None)
        if isinstance(blk, list) and any(x is child for x in blk):
            return blk
    for h in getattr(par, 'handlers', []) or []:
        if any(x is child for x in h.body):
            return h.body
    return None


def reach_facts(stmt, top):
    """Conditions under which `stmt` runs in one pass of the loop `top` (a For/While enclosing it, or the function):
    the tests of the enclosing ifs, and of the earlier guard clauses (`if c: continue/return/break`) of every
    enclosing block.  A guard clause that raises is not a condition of this kind: it stops everything loudly, it
    does not pass over the item.  -> ([(test, polarity)], complex?)"""
    facts, cx = [], False
    child = stmt
    for a in ancestors(stmt):
        blk = _block_of(a, child)
        if isinstance(a, ast.If) and blk is not None:
            facts.append((a.test, blk is a.body))
        elif isinstance(a, ast.While) and blk is a.body and a is not top:
            facts.append((a.test, True))
        if blk is not None:
            for p in blk[:next(i for i, x in enumerate(blk) if x is child)]:
                if isinstance(p, ast.If):
                    be, oe = _ends(p.body), bool(p.orelse) and _ends(p.orelse)
                    if be and not oe:
                        if not isinstance(last_stmt(p.body), ast.Raise):
                            facts.append((p.test, False))
                        inner = p.body[:-1] + p.orelse
                    elif oe and not be:
                        if not isinstance(last_stmt(p.orelse), ast.Raise):
                            facts.append((p.test, True))
                        inner = p.body + p.orelse[:-1]
                    else:
                        inner = [p]
                        cx = cx or (be and oe)
                else:
                    inner = [p]
                if any(isinstance(x, (ast.Continue, ast.Break, ast.Return)) for q in inner for x in walk_no_nested(q)):
                    cx = True
        if a is top or isinstance(a, (ast.FunctionDef, ast.AsyncFunctionDef)):
            break
        child = a
    return facts, cx


def _plain_iter(e):
    """the loop visits every member of its source (no slice, no filter)"""
    while True:
        if isinstance(e, ast.Call) and call_name(e) in _WRAPPERS and e.args:
            e = e.args[0]
        elif isinstance(e, ast.Call) and isinstance(e.func, ast.Attribute) and e.func.attr in ('items', 'keys', 'values') \
                and not e.args:
            e = e.func.value
        else:
            break
    for n in ast.walk(e):
        if isinstance(n, ast.Slice):
            return False
        if isinstance(n, ast.Call) and call_name(n) in _FILTERS:
            return False
        if isinstance(n, ast.comprehension) and n.ifs:
            return False
    return True


def _value_of(contributed):
    """V for `V.keys()`, `V`, `set(V)`, `*V`"""
    e = contributed
    while True:
        if isinstance(e, ast.Call) and isinstance(e.func, ast.Attribute) and e.func.attr in ('keys', 'items', 'values') \
                and not e.args:
            e = e.func.value
        elif isinstance(e, ast.Call) and call_name(e) in _WRAPPERS and e.args:
            e = e.args[0]
        else:
            return e


def _value_base(v):
    """container of the values: `self._data` for `self._data[name]`, `data` for `getattr(data, f)`"""
    if isinstance(v, ast.Subscript):
        return norm(v.value)
    if isinstance(v, ast.Call) and call_name(v) == 'getattr' and v.args:
        return norm(v.args[0])
    if isinstance(v, ast.Call) and isinstance(v.func, ast.Attribute) and v.func.attr == 'get':
        return norm(v.func.value)
    return None


def categorise_fact(fn_node, e, pol, itemvars, V, depth=0):
    """What a condition (known to have truth value `pol` where the collection / the write happens) selects by:
    [(category, polarity)] with category in
      'global'          not a function of the item (field) visited
      'dim:<NAME>'      `Dimension.NAME in <item>.dimensions`
      'value'           the value of the field is set (not None / present / of the mapping type): polarity True;
                        is unset: polarity False
      'meta:<attr>'     an attribute of the item's metadata (e.g. required)
      'ident:<text>'    anything else about the item (its name, its position, …)
      'other:<text>'    not understood"""
    out = []
    for f, p in conjuncts(e, pol):
        if isinstance(f, ast.Name) and f.id not in itemvars and depth < 4:
            v = single_def_value(fn_node, f.id)
            if v is not None and not (V is not None and norm(V) == f.id):
                out += categorise_fact(fn_node, v, p, itemvars, V, depth + 1)
                continue
        d = Dispatch.dim_of(f)
        names = {x.id for x in ast.walk(f) if isinstance(x, ast.Name)}
        txt = norm(f)
        vtxt = norm(V) if V is not None else None
        vbase = _value_base(V) if V is not None else None
        if d is not None:
            out.append((f'dim:{d[0]}', d[1] == p))
            continue
        if isinstance(f, (ast.BoolOp, ast.IfExp)) and names & itemvars:
            # a disjunction of conditions on the item (what is left of `if a and b: continue`): no single category
            out.append((f'other:{txt}', p))
            continue
        on_value = vtxt is not None and any(norm(x) == vtxt for x in ast.walk(f) if isinstance(x, ast.expr))
        if on_value:
            present = None
            if isinstance(f, ast.Compare) and len(f.ops) == 1 and isinstance(f.comparators[0], ast.Constant) \
                    and f.comparators[0].value is None and norm(f.left) == vtxt:
                present = isinstance(f.ops[0], (ast.IsNot, ast.NotEq)) == p
            elif isinstance(f, ast.Call) and call_name(f) == 'isinstance' and norm(f.args[0]) == vtxt:
                present = p
            elif txt == vtxt:
                present = p
            out.append(('value', present) if present is not None else (f'other:{txt}', p))
            continue
        if vbase is not None and names & itemvars and (
                (isinstance(f, ast.Compare) and len(f.ops) == 1 and isinstance(f.ops[0], (ast.In, ast.NotIn))
                 and norm(f.comparators[0]) == vbase and isinstance(f.left, ast.Name)) or
                (isinstance(f, ast.Call) and call_name(f) == 'hasattr' and f.args and norm(f.args[0]) == vbase)):
            neg = isinstance(f, ast.Compare) and isinstance(f.ops[0], ast.NotIn)
            out.append(('value', p != neg))
            continue
        if not names & itemvars:
            out.append(('global', p))
            continue
        g = f
        if isinstance(g, ast.Compare) and len(g.ops) == 1 and isinstance(g.comparators[0], ast.Constant) \
                and isinstance(g.comparators[0].value, bool) and isinstance(g.ops[0], (ast.Is, ast.Eq, ast.IsNot, ast.NotEq)):
            same = isinstance(g.ops[0], (ast.Is, ast.Eq)) == g.comparators[0].value
            g, p = g.left, (p if same else not p)
        if isinstance(g, ast.Attribute) and isinstance(g.value, ast.Name) and g.value.id in itemvars:
            out.append((f'meta:{g.attr}', p))
        else:
            out.append((f'ident:{txt}', p))
    return out


def _site_conditions(site):
    """([(category, polarity)], problem | None) for one collection site, relative to the loops that feed it"""
    fi, node = site.fi, site.node
    V = _value_of(site.contributed)
    if isinstance(node, (ast.SetComp, ast.ListComp, ast.GeneratorExp)):
        itemvars = {x.id for g in node.generators for x in ast.walk(g.target) if isinstance(x, ast.Name)}
        facts = [(i, True) for g in node.generators for i in g.ifs]
        iters = [g.iter for g in node.generators]
        if isinstance(V, ast.Name) and V.id in itemvars:
            # `… for sp in X` : the members are the elements of the innermost source
            src = next((g.iter for g in node.generators if any(isinstance(x, ast.Name) and x.id == V.id
                                                                  for x in ast.walk(g.target))), None)
            V = _value_of(src) if src is not None else V
            iters = [i for i in iters if i is not src]
        cx = False
    else:
        st = stmt_of(node)
        loops = [a for a in ancestors(st) if isinstance(a, (ast.For, ast.AsyncFor, ast.While))
                 and not any(is_within(i, a) for i in site.inits)]
        if not loops:
            return [], None
        top = loops[-1]
        facts, cx = reach_facts(st, top)
        itemvars = {x.id for lp in loops if not isinstance(lp, ast.While) for x in ast.walk(lp.target)
                    if isinstance(x, ast.Name)}
        iters = [lp.iter for lp in loops if not isinstance(lp, ast.While)]
        if isinstance(V, ast.Name) and V.id in itemvars:
            # `for sp in X: acc.add(sp)` : the members are the elements of X
            src = next((lp for lp in loops if not isinstance(lp, ast.While)
                        and any(isinstance(x, ast.Name) and x.id == V.id for x in ast.walk(lp.target))), None)
            if src is not None:
                V = _value_of(src.iter)
                iters = [i for i in iters if i is not src.iter]
        # leaving the loop early restricts what is visited, too
        for lp in loops:
            for x in walk_no_nested(lp):
                if isinstance(x, (ast.Break, ast.Return)):
                    cx = True
    # locals of the loop body derived from the item (val = self._data[name]) count as the item
    changed = True
    while changed:
        changed = False
        for t, stx, how in stores_to(fi.node):
            if isinstance(t, ast.Name) and t.id not in itemvars and how in ('assign', 'ann') and stx.value is not None \
                    and (V is None or norm(V) != t.id) \
                    and any(isinstance(x, ast.Name) and x.id in itemvars for x in ast.walk(stx.value)) \
                    and single_def_value(fi.node, t.id) is None:
                itemvars.add(t.id)
                changed = True
    cats = []
    for e, pol in facts:
        cats += categorise_fact(fi.node, e, pol, itemvars, V)
    if cx:
        return cats, 'the loop is left early or has guard clauses of a form not analysed'
    if not all(_plain_iter(i) for i in iters):
        return cats, 'the loop source is sliced or filtered'
    return cats, None


def writer_proceeds(ctx, m):
    """The conditions on a field under which the writer writes it, read from the code: the guards of the call of
    _write_to_nc_var in the field loops of _write_data, and the value-less early returns of _write_to_nc_var that do
    not depend on the dimension dispatch (`if val is None: … return` -> proceeds when the value is set)."""
    wd = m.func('TrajectoryStore._write_data')
    wr = m.func('TrajectoryStore._write_to_nc_var')
    out = set()
    calls = [c for c in calls_in(wd.node) if call_name(c).endswith('_write_to_nc_var')]
    ctx.floor('C03-R9/writer', len(calls), 1, 'call of _write_to_nc_var in _write_data')
    vparam = None
    for c in calls:
        st = stmt_of(c)
        loops = [a for a in ancestors(st) if isinstance(a, (ast.For, ast.While))]
        if not loops:
            ctx.undecided('C03-R9', wd, norm(c)[:50], 'the writer is not called from a loop over the fields')
        facts, cx = reach_facts(st, loops[-1])
        if cx or not all(_plain_iter(lp.iter) for lp in loops if isinstance(lp, ast.For)):
            ctx.undecided('C03-R9', wd, norm(c)[:50], 'the field loop of the writer is filtered in a form not analysed')
        itemvars = {x.id for lp in loops if isinstance(lp, ast.For) for x in ast.walk(lp.target) if isinstance(x, ast.Name)}
        for t, stx, how in stores_to(loops[-1]):
            if isinstance(t, ast.Name):
                itemvars.add(t.id)
        varg = _arg_for_param(wr, c, 'val') if 'val' in wr.params else None
        for e, pol in facts:
            out |= set(categorise_fact(wd.node, e, pol, itemvars, varg))
        # which parameter of the writer carries the value: the one stored into the variable
    stored = [st.value for t, st, how in stores_to(wr.node) if isinstance(t, ast.Subscript) and how == 'assign']
    for v in stored:
        while isinstance(v, ast.Subscript):
            v = v.value
        if isinstance(v, ast.Name) and v.id in wr.params:
            vparam = v.id
    if vparam is None:
        ctx.undecided('C03-R9', wr, 'value parameter', 'cannot tell which parameter is stored into the variable')
    dp = Dispatch(wr)
    items = set(wr.params) - {'self'}
    for r in walk_no_nested(wr.node):
        if isinstance(r, ast.Return) and r.value is None:
            gs = [(t, pol) for t, pol, _ in guards_of(r)]
            if not gs or any(dp.depends(t) for t, _ in gs):
                continue
            cats = [c for t, pol in gs for c in categorise_fact(wr.node, t, pol, items, ast.Name(id=vparam, ctx=ast.Load()))]
            cats = [c for c in cats if c[0] != 'global']
            if len(cats) == 1:
                # skipped when the fact holds -> written when it does not
                c, p = cats[0]
                if c.startswith('other:'):
                    ctx.undecided('C03-R9', wr, c[6:][:50], 'early return of the writer under a condition not understood')
                out.add((c, not p))
            elif cats:
                ctx.undecided('C03-R9', wr, norm(gs[0][0])[:50], 'early return of the writer under a compound condition')
    return out


def rule_species_domain(ctx, m):
    """R9: writer domain within dimension domain."""
    prog = ctx.prog
    cd = m.func('_create_dimensions')
    wd = m.func('TrajectoryStore._write_data')
    written_cls = expr_class(prog, wd, ast.Name(id='traj', ctx=ast.Load())) if 'traj' in wd.params else None
    # the expression that becomes the species axis
    roots = []
    for c in calls_in(cd.node):
        if call_name(c) == 'create_enum_dimension' and c.args and isinstance(c.args[0], ast.Constant) \
                and c.args[0].value == 'species':
            vals = c.args[2] if len(c.args) > 2 else kwarg(c, 'values')
            if vals is not None:
                roots.append(vals)
    ctx.floor('C03-R9/axis', len(roots), 1, 'creation of the species dimension from a species list')
    found = []
    for r in roots:
        found += _members_of(prog, cd, r, written_cls)
    proceeds = writer_proceeds(ctx, m) | {('value', True), ('dim:SPECIES', True)}
    nsite = 0
    seen = set()
    for s in found:
        if isinstance(s, tuple):
            if s[0] == 'unknown':
                ctx.undecided('C03-R9', s[1], norm(s[2])[:60], 'cannot tell where the members of the species list come from')
            continue
        if id(s.node) in seen:
            continue
        seen.add(id(s.node))
        cats, problem = _site_conditions(s)
        if ('dim:SPECIES', True) not in cats:
            continue        # not a collection over species-indexed fields
        nsite += 1
        bad = [(c, p) for c, p in cats if c != 'global' and (c, p) not in proceeds]
        und = [c for c, p in bad if c.startswith('other:')]
        restr = [(c, p) for c, p in bad if not c.startswith('other:')]
        if not restr and (und or problem):
            ctx.undecided('C03-R9', s.fi, norm(s.node)[:60], problem or f'condition not understood: {und[0][6:]}')

        def say(c, p):
            kind, _, what = c.partition(':')
            return {'meta': f'`{what}` is {p}', 'dim': f'the field has {"a" if p else "no"} {what} dimension',
                    'ident': f'`{what}` is {p}', 'value': 'no value is set'}.get(kind, c)
        ctx.ob('C03-R9', s.fi, f'species axis collected from every species-indexed field written: {norm(s.node)[:70]}',
               not restr,
               'collected under no condition on the field but "has a species dimension" / "value is set", as the writer writes'
               if not restr else
               ('the species that size and label the species axis of a new file are collected only from fields where ' +
                ' and '.join(say(c, p) for c, p in restr) + ', but the writer (_write_data → _write_to_nc_var) writes every '
                'species-indexed field whose value is set, placing each species at its position in that list: a species that '
                'occurs only in a field left out of the collection has no slot and is silently not written (lost on read-back)'),
               line=s.node.lineno)
    ctx.floor('C03-R9', nsite, 2, 'species collections feeding the species axis (new store, associated file)')
    # positive control
    ctl = ast.parse('def species(self):\n acc = set()\n for name, field in self.dd.items():\n'
                    '  if Dimension.SPECIES not in field.dimensions:\n   continue\n  if not field.required:\n   continue\n'
                    '  acc.update(self._data[name].keys())\n return sorted(acc)')
    for a_ in ast.walk(ctl):
        for ch in ast.iter_child_nodes(a_):
            ch._parent = a_
    f = ctl.body[0]

    class _F:
        node = f
        params = ['self']
        qualname = 'species'
    call = next(c for c in ast.walk(f) if isinstance(c, ast.Call) and call_name(c) == 'acc.update')
    cats, problem = _site_conditions(_Site(_F, call, call.args[0], [f.body[0]]))
    ctx.control('C03-R9', problem is None and ('dim:SPECIES', True) in cats and ('meta:required', True) in cats,
                'embedded collection that skips optional fields is recognised as restricted')


def run(ctx):
    m = ctx.prog.module(STORE)
    rule_cast(ctx)
    legal = legal_combinations(ctx, ctx.prog)
    ctx.stats['legal_dimension_combinations'] = [
        ''.join(k[0] for k, v in c.items() if v) or 'scalar' for c in legal]
    if len(legal) != 6:
        ctx.note(f'Dimensions.__init__ now admits {len(legal)} combinations (6 when the rules were written)')
    arms = rule_tables(ctx, m, legal)
    rule_axis(ctx, m)
    rule_same_file(ctx, m)
    rule_accumulators(ctx, m)
    rule_absent(ctx, m, arms)
    rule_digest(ctx, m)
    rule_hash_gate(ctx, m)
    rule_index_use(ctx, m)
    rule_species_domain(ctx, m)
    ctx.assumptions += [
        'netCDF4 returns the fill value for cells never written and an empty array for unwritten VL cells',
        'values equal to the fill value are not legitimate data',
    ]
